package main

import (
	"crypto/sha1"
	"encoding/json"
	"flag"
	"fmt"
	"os"
	"os/exec"
	"path/filepath"
	"runtime"
	"sort"
	"strconv"
	"strings"
	"time"

	"gjv/eng"
)

type TierSpec struct {
	P        int            `json:"P"`
	T        int            `json:"T"`
	Steps    int            `json:"steps"`
	Bounds   map[string]int `json:"bounds"`
	Deadline int            `json:"deadline_s"`
	Skip     bool           `json:"skip"`
}

type HarnessSpec struct {
	Pkg         string            `json:"pkg"`
	Entry       string            `json:"entry"`
	Quick       TierSpec          `json:"quick"`
	Thorough    TierSpec          `json:"thorough"`
	Reach       []string          `json:"reach"`
	Native      bool              `json:"native_replay"` // counterexamples and witnesses are replayed natively
	Solver      string            `json:"solver"`
	Kernels     map[string]string `json:"kernels"`
	What        string            `json:"what"`
	NoWitness   bool              `json:"no_witness"`
	Concurrent  bool              `json:"concurrent"`
	CrossSolver string            `json:"cross_solver"` // thorough tier: re-run with this solver and compare
}

type PropSpec struct {
	Level       string        `json:"level"`
	Harnesses   []HarnessSpec `json:"harnesses"`
	Assumptions []string      `json:"assumptions"`
	Outside     []string      `json:"outside"`
}

type KnownFinding struct {
	Status   string `json:"status"` // known | fixed
	Property string `json:"property"`
	Class    string `json:"class"`
	Harness  string `json:"harness"`
	What     string `json:"what"`
	Commit   string `json:"commit,omitempty"`
	Line     string `json:"line,omitempty"`
}

func verifDir() string {
	if d := os.Getenv("VERIF_DIR"); d != "" {
		return d
	}
	return "/verif"
}

func cmdCheck(args []string) int {
	fs := flag.NewFlagSet("check", flag.ExitOnError)
	tier := fs.String("tier", "", "quick|thorough")
	workers := fs.Int("workers", runtime.NumCPU(), "workers")
	only := fs.String("only", "", "run only this harness entry")
	noNative := fs.Bool("no-native", false, "skip native replay/witness validation")
	if len(args) < 1 {
		fmt.Println("usage: gjv check <id> [--tier quick|thorough]")
		return 2
	}
	id := args[0]
	fs.Parse(args[1:])
	if *tier == "" {
		*tier = os.Getenv("VERIF_TIER")
	}
	if *tier == "" {
		*tier = "quick"
	}
	seed := int64(0)
	if s := os.Getenv("VERIF_SEED"); s != "" {
		seed, _ = strconv.ParseInt(s, 10, 64)
	}
	t0 := time.Now()
	specs := map[string]PropSpec{}
	b, err := os.ReadFile(filepath.Join(verifDir(), "checks.json"))
	if err != nil {
		fmt.Println("cannot read checks.json:", err)
		return 2
	}
	if err := json.Unmarshal(b, &specs); err != nil {
		fmt.Println("checks.json:", err)
		return 2
	}
	spec, ok := specs[id]
	if !ok {
		fmt.Println("no check registered for", id)
		return 2
	}
	var known []KnownFinding
	if kb, err := os.ReadFile(filepath.Join(verifDir(), "known_findings.json")); err == nil {
		json.Unmarshal(kb, &known)
	}

	// load once with all harness packages
	pkgSet := map[string]bool{}
	kernels := map[string]string{}
	for _, h := range spec.Harnesses {
		pkgSet[h.Pkg] = true
		for k, v := range h.Kernels {
			kernels[k] = filepath.Join(verifDir(), v)
		}
	}
	var pats []string
	for p := range pkgSet {
		if !strings.HasPrefix(p, eng.ModPath) {
			pats = append(pats, p)
		}
	}
	sort.Strings(pats)
	prog, err := eng.Load(eng.LoadConfig{RepoDir: repoDir(), HarnessDir: harnessDir(), Patterns: pats, Kernels: kernels})
	if err != nil {
		// A tree that does not type-check against the harness is not a violation.
		fmt.Printf("INCONCLUSIVE property=%s reason=load: %v\n", id, err)
		writeEvidence(id, *tier, seed, spec, nil, time.Since(t0), 0, []string{"load failed: " + err.Error()}, 0)
		return 2
	}

	type hres struct {
		h   HarnessSpec
		ts  TierSpec
		ex  *eng.Explorer
		sec float64
	}
	var results []hres
	var crossNotes, crossBad []string
	for _, h := range spec.Harnesses {
		if *only != "" && h.Entry != *only {
			continue
		}
		ts := h.Quick
		if *tier == "thorough" {
			ts = h.Thorough
		}
		if ts.Skip {
			continue
		}
		fn := prog.FuncByName(h.Pkg, h.Entry)
		if fn == nil {
			fmt.Printf("INCONCLUSIVE property=%s reason=harness %s.%s not found\n", id, h.Pkg, h.Entry)
			return 2
		}
		solver := h.Solver
		if solver == "" {
			solver = "z3"
		}
		steps := ts.Steps
		if steps == 0 {
			steps = 3000000
		}
		if ts.Deadline == 0 {
			// default wall-clock budget per harness: a change to the code under test can multiply the
			// path count; past the budget the harness is reported inconclusive, never as a pass
			ts.Deadline = 900
			if *tier == "thorough" {
				ts.Deadline = 3300
			}
		}
		ex := &eng.Explorer{P: prog, Entry: fn, Solver: solver, Workers: *workers, Seed: seed,
			B: eng.Bounds{Preempt: ts.P, Timers: ts.T, MaxSteps: steps, SolverMs: 30000, DeadlineS: ts.Deadline, Params: ts.Bounds}}
		ex.WitnessEvery = 1
		t1 := time.Now()
		if err := ex.Explore(); err != nil {
			fmt.Printf("INCONCLUSIVE property=%s reason=%v\n", id, err)
			return 2
		}
		sec := time.Since(t1).Seconds()
		fmt.Printf("[%s %s] paths=%d infeasible=%d decisions=%d steps=%d asserts=%d(smt %d) violations=%d inconclusive=%d %.1fs\n",
			id, h.Entry, ex.Paths, ex.Infeasible, ex.Decisions, ex.Steps, ex.Asserts, ex.AssertsSMT, len(ex.Violations), len(ex.Inconclusive), sec)
		results = append(results, hres{h, ts, ex, sec})
		if *tier == "thorough" && h.CrossSolver != "" && h.CrossSolver != solver {
			ex2 := &eng.Explorer{P: prog, Entry: fn, Solver: h.CrossSolver, Workers: *workers, Seed: seed,
				B: eng.Bounds{Preempt: ts.P, Timers: ts.T, MaxSteps: steps, SolverMs: 30000, DeadlineS: ts.Deadline, Params: ts.Bounds}}
			if err := ex2.Explore(); err != nil {
				fmt.Printf("INCONCLUSIVE property=%s reason=%v\n", id, err)
				return 2
			}
			same := ex2.Paths == ex.Paths && ex2.Infeasible == ex.Infeasible && len(ex2.Violations) == len(ex.Violations) && len(ex2.Inconclusive) == len(ex.Inconclusive)
			fmt.Printf("[%s %s] cross-check with %s: paths=%d infeasible=%d violations=%d agree=%v\n", id, h.Entry, h.CrossSolver, ex2.Paths, ex2.Infeasible, len(ex2.Violations), same)
			crossNotes = append(crossNotes, fmt.Sprintf("%s: %s vs %s paths %d/%d infeasible %d/%d violations %d/%d agree=%v", h.Entry, solver, h.CrossSolver, ex.Paths, ex2.Paths, ex.Infeasible, ex2.Infeasible, len(ex.Violations), len(ex2.Violations), same))
			if !same {
				crossBad = append(crossBad, h.Entry+": solvers "+solver+" and "+h.CrossSolver+" disagree on the explored tree")
			}
		}
	}

	exit := 0
	var inconc []string
	inconc = append(inconc, crossBad...)
	nViol := 0
	validated := 0
	replayDir := filepath.Join(verifDir(), "evidence", "replays")
	os.MkdirAll(replayDir, 0o755)
	var cov []map[string]interface{}
	for _, r := range results {
		ex := r.ex
		for _, l := range r.h.Reach {
			if ex.Reached[l] == 0 && len(ex.Violations) == 0 {
				inconc = append(inconc, fmt.Sprintf("%s: reach label %q never reached (vacuity guard)", r.h.Entry, l))
			}
		}
		if ex.Budget {
			inconc = append(inconc, r.h.Entry+": exploration budget/deadline hit")
		}
		for _, m := range ex.Inconclusive {
			inconc = append(inconc, r.h.Entry+": "+m)
		}
		// native witness validation of passing paths
		if r.h.Native && !r.h.NoWitness && !*noNative && len(ex.Witnesses) > 0 {
			okN, bad := nativeRun(r.h, ex.Witnesses, r.ts.Bounds, false)
			if len(bad) > 0 && r.h.Concurrent {
				// natively the schedule is the Go runtime's: a disagreement must be
				// persistent to count (a model error fails every time)
				for try := 0; try < 2 && len(bad) > 0; try++ {
					okN, bad = nativeRun(r.h, ex.Witnesses, r.ts.Bounds, false)
				}
			}
			validated += okN
			for _, b := range bad {
				inconc = append(inconc, r.h.Entry+": witness replay disagrees with the engine: "+b)
			}
		}
		// violations: group by class
		classes := map[string]*eng.Violation{}
		var order []string
		for _, v := range ex.Violations {
			if _, ok := classes[v.Class]; !ok {
				classes[v.Class] = v
				order = append(order, v.Class)
			}
		}
		sort.Strings(order)
		for _, c := range order {
			v := classes[c]
			if kf := matchKnown(known, id, r.h.Entry, c); kf != nil {
				fmt.Printf("KNOWN-FINDING: property=%s %s [%s/%s]\n", id, kf.What, r.h.Entry, c)
				continue
			}
			// replay
			hsum := sha1.Sum([]byte(c))
			file := filepath.Join(replayDir, fmt.Sprintf("%s-%s-%x.json", id, r.h.Entry, hsum[:5]))
			rep := map[string]interface{}{"property": id, "harness": r.h.Pkg + "." + r.h.Entry, "class": c, "label": v.Label, "inputs": v.Inputs,
				"bounds": r.ts.Bounds, "schedule": v.Sched, "decisions": decStrings(v.Trace), "path_condition": v.PC, "where": v.Msg, "observations": v.Obs, "P": r.ts.P, "T": r.ts.T}
			native := "not-attempted"
			if r.h.Native && !*noNative && nativeCexBudget <= 0 {
				// every native replay of a hanging counterexample costs up to the native time-out;
				// past the budget the remaining classes are reported with the in-engine trace only
				native = "not attempted (native replay budget of this run used up by earlier classes); the in-engine trace is the replay artefact"
			} else if r.h.Native && !*noNative {
				nativeCexBudget--
				_, bad := nativeRun(r.h, []map[string]interface{}{v.Inputs}, r.ts.Bounds, true)
				if len(bad) > 0 && nativeInfraFailure(bad[0]) {
					// the native run could not be made at all: that is not a reproduction
					if r.h.Concurrent {
						native = "not attempted (" + firstLine(bad[0]) + "); the in-engine trace is the replay artefact"
					} else {
						native = "not-reproduced"
						rep["native_replay_error"] = bad[0]
					}
				} else if len(bad) > 0 {
					native = "reproduced: " + strings.Join(bad, "; ")
				} else if r.h.Concurrent {
					native = "not reproduced under the native default schedule (schedule-dependent; the in-engine trace is the replay artefact)"
				} else {
					native = "not-reproduced"
				}
			} else if !r.h.Native {
				native = "environment-only (concurrent harness): in-engine trace is the replay artefact"
			}
			rep["native_replay"] = native
			jb, _ := json.MarshalIndent(rep, "", " ")
			os.WriteFile(file, jb, 0o644)
			if native == "not-reproduced" {
				inconc = append(inconc, fmt.Sprintf("%s: counterexample for %s did not reproduce natively (model or encoding wrong?) replay=%s", r.h.Entry, c, file))
				continue
			}
			nViol++
			fmt.Printf("VIOLATION property=%s replay=%s\n", id, file)
			fmt.Printf("  class=%s where=%s native=%s\n", c, v.Msg, native)
			exit = 1
		}
		st := map[string]interface{}{"harness": r.h.Pkg + "." + r.h.Entry, "what": r.h.What, "paths": ex.Paths, "infeasible_paths": ex.Infeasible,
			"decisions": ex.Decisions, "ssa_instructions": ex.Steps, "assertions": ex.Asserts, "assertions_decided_by_solver": ex.AssertsSMT,
			"bounds":               map[string]interface{}{"preemptions": r.ts.P, "timer_firings": r.ts.T, "step_budget_per_path": ex.B.MaxSteps, "harness": r.ts.Bounds},
			"max_preemptions_used": ex.MaxPreempt, "solver": ex.SolverStats, "reach": ex.Reached, "seconds": r.sec,
			"solver_cross_check": crossNotes, "functions_encoded": ex.FnList(), "models_hit": keys(ex.Models), "exhaustive": !ex.Budget && len(ex.Inconclusive) == 0}
		cov = append(cov, st)
	}
	if len(inconc) > 0 && exit == 0 {
		exit = 2
	}
	for i, m := range inconc {
		if i < 10 {
			fmt.Printf("INCONCLUSIVE property=%s reason=%s\n", id, firstLine(m))
		}
	}
	// evidence
	var exs []*eng.Explorer
	for _, r := range results {
		exs = append(exs, r.ex)
	}
	writeEvidenceFull(id, *tier, seed, spec, exs, cov, time.Since(t0), nViol, inconc, validated)
	nativeCleanup()
	if exit == 0 {
		fmt.Printf("OK property=%s tier=%s %.1fs\n", id, *tier, time.Since(t0).Seconds())
	}
	return exit
}

func firstLine(s string) string {
	if i := strings.IndexByte(s, '\n'); i >= 0 {
		return s[:i]
	}
	return s
}

func keys(m map[string]bool) []string {
	var out []string
	for k := range m {
		out = append(out, k)
	}
	sort.Strings(out)
	return out
}

func decStrings(ds []eng.Decision) []string {
	var out []string
	for _, d := range ds {
		out = append(out, fmt.Sprintf("%s=%d/%d", d.Kind, d.V, d.N))
	}
	return out
}

func matchKnown(known []KnownFinding, id, entry, class string) *KnownFinding {
	for i := range known {
		k := &known[i]
		if k.Status == "known" && k.Property == id && k.Class == class && (k.Harness == "" || k.Harness == entry) {
			return k
		}
	}
	return nil
}

// nativeRun executes the harness natively once per pinned input set: the
// package's test binary is built once (go test -c, with the kernel overlay if
// any) and run in a fresh process per pin, so a native crash is attributed to
// its own input. expectFail=false: all must pass; returns the count that passed
// and descriptions of disagreements. expectFail=true: returns failures as "bad".
var nativeBins = map[string]string{}

func nativeBuild(h HarnessSpec, scratch string) (string, string) {
	key := h.Pkg
	if b, ok := nativeBins[key]; ok {
		return b, ""
	}
	rel := strings.TrimPrefix(h.Pkg, "gjvharness/")
	bin := filepath.Join(scratch, strings.ReplaceAll(rel, "/", "_")+".test")
	args := []string{"test", "-c", "-vet=off", "-o", bin}
	if len(h.Kernels) > 0 {
		ov := map[string]map[string]string{"Replace": {}}
		for virt, real := range h.Kernels {
			ov["Replace"][filepath.Join(repoDir(), virt)] = filepath.Join(verifDir(), real)
		}
		ob, _ := json.Marshal(ov)
		os.WriteFile(filepath.Join(scratch, "overlay.json"), ob, 0o644)
		args = append(args, "-tags", "verif", "-overlay", filepath.Join(scratch, "overlay.json"))
	}
	args = append(args, "./"+rel)
	cmd := exec.Command("go", args...)
	cmd.Dir = harnessDir()
	cmd.Env = append(os.Environ(), "GOFLAGS=-mod=mod", "GOPROXY=off", "GOSUMDB=off", "GOTOOLCHAIN=local", "GOCACHE="+goCache())
	out, err := cmd.CombinedOutput()
	if err != nil {
		return "", "native build failed: " + string(out)
	}
	nativeBins[key] = bin
	return bin, ""
}

var nativeScratch string

// nativeTimeout bounds one native run (a counterexample that hangs natively ends here)
var nativeTimeout = "60s"

// nativeCexBudget: how many counterexample classes of one check run are replayed natively
var nativeCexBudget = 6

func nativeRun(h HarnessSpec, pins []map[string]interface{}, bounds map[string]int, expectFail bool) (int, []string) {
	if nativeScratch == "" {
		d, err := os.MkdirTemp("/var/tmp", "gjv-replay-")
		if err != nil {
			return 0, []string{"mktemp: " + err.Error()}
		}
		nativeScratch = d
	}
	bin, berr := nativeBuild(h, nativeScratch)
	if berr != "" {
		return 0, []string{berr}
	}
	okN := 0
	var bad []string
	for i, p := range pins {
		dir, _ := os.MkdirTemp(nativeScratch, "pin")
		b, _ := json.Marshal(map[string]interface{}{"inputs": p, "bounds": bounds})
		os.WriteFile(filepath.Join(dir, fmt.Sprintf("pin%04d.json", i)), b, 0o644)
		cmd := exec.Command(bin, "-test.v", "-test.run", "^TestReplay$", "-test.timeout", nativeTimeout)
		cmd.Dir = nativeScratch
		cmd.Env = append(os.Environ(), "VERIF_PIN_DIR="+dir, "VERIF_ENTRY="+h.Entry)
		out, _ := cmd.CombinedOutput()
		os.RemoveAll(dir)
		saw := false
		for _, l := range strings.Split(string(out), "\n") {
			l = strings.TrimSpace(l)
			switch {
			case strings.HasPrefix(l, "REPLAY-OK"):
				okN++
				saw = true
			case strings.HasPrefix(l, "REPLAY-SKIP"):
				saw = true
			case strings.HasPrefix(l, "REPLAY-ERROR"):
				saw = true
				bad = append(bad, "native harness error: "+l)
			case strings.HasPrefix(l, "REPLAY-FAIL"):
				bad = append(bad, strings.TrimPrefix(l, "REPLAY-FAIL "))
				saw = true
			}
		}
		if !saw {
			txt := string(out)
			if i := strings.Index(txt, "panic:"); i >= 0 {
				bad = append(bad, "native process crashed: "+firstLine(txt[i:]))
			} else if i := strings.Index(txt, "fatal error:"); i >= 0 {
				bad = append(bad, "native process crashed: "+firstLine(txt[i:]))
			} else if strings.Contains(txt, "test timed out") {
				bad = append(bad, "native run hung (test timed out)")
			} else if !expectFail {
				if len(txt) > 400 {
					txt = txt[len(txt)-400:]
				}
				bad = append(bad, "native run produced no result: "+txt)
			}
		}
	}
	return okN, bad
}

func nativeInfraFailure(msg string) bool {
	return strings.HasPrefix(msg, "native build failed") || strings.HasPrefix(msg, "mktemp:")
}

func nativeCleanup() {
	if nativeScratch != "" {
		os.RemoveAll(nativeScratch)
	}
}

func goCache() string {
	if c := os.Getenv("GOCACHE"); c != "" {
		return c
	}
	out, err := exec.Command("go", "env", "GOCACHE").Output()
	if err == nil {
		return strings.TrimSpace(string(out))
	}
	return "/var/tmp/gjv-gocache"
}

func writeEvidence(id, tier string, seed int64, spec PropSpec, exs []*eng.Explorer, wall time.Duration, nViol int, inconc []string, validated int) {
	writeEvidenceFull(id, tier, seed, spec, exs, nil, wall, nViol, inconc, validated)
}

func writeEvidenceFull(id, tier string, seed int64, spec PropSpec, exs []*eng.Explorer, cov []map[string]interface{}, wall time.Duration, nViol int, inconc []string, validated int) {
	states, trans, oblig, queries := 0, 0, 0, 0
	solverSec := 0.0
	var samples []interface{}
	exhaustive := len(inconc) == 0
	for _, ex := range exs {
		states += ex.Paths
		trans += ex.Decisions + ex.Steps
		oblig += ex.Asserts
		for _, s := range ex.SolverStats {
			queries += s.Queries
			solverSec += s.Seconds
		}
		for i, s := range ex.Samples {
			if i < 4 {
				samples = append(samples, s)
			}
		}
		if ex.Budget {
			exhaustive = false
		}
	}
	if len(samples) == 0 {
		samples = append(samples, "no path explored")
	}
	level := spec.Level
	if level == "" {
		level = "model_checking"
	}
	if states == 0 {
		states = 1
		trans = 1
	}
	ev := map[string]interface{}{
		"property_id": id, "tier": tier, "seed": seed, "level": level,
		"coverage": map[string]interface{}{
			"states": states, "transitions": trans, "traces_validated_against_impl": validated, "samples": samples,
			"exhaustive": exhaustive, "assertions_checked": oblig, "solver_queries": queries, "solver_seconds": solverSec,
			"harnesses": cov, "outside_the_claim": spec.Outside, "inconclusive": inconc,
			"explanation": "states = symbolic paths of the real go-jsonrpc SSA explored (each stands for all inputs satisfying its path condition); transitions = decisions + SSA instructions executed; every branch on symbolic data is decided by the SMT solver, assertions are discharged per path",
		},
		"assumptions": spec.Assumptions, "wall_s": wall.Seconds(), "violations": nViol,
	}
	b, _ := json.MarshalIndent(ev, "", " ")
	os.MkdirAll(filepath.Join(verifDir(), "evidence"), 0o755)
	os.WriteFile(filepath.Join(verifDir(), "evidence", id+".json"), b, 0o644)
}

func cmdReplay(args []string) int {
	if len(args) < 1 {
		fmt.Println("usage: gjv replay <file>")
		return 2
	}
	b, err := os.ReadFile(args[0])
	if err != nil {
		fmt.Println(err)
		return 2
	}
	var rep struct {
		Harness string                 `json:"harness"`
		Inputs  map[string]interface{} `json:"inputs"`
		Bounds  map[string]int         `json:"bounds"`
		Class   string                 `json:"class"`
	}
	if err := json.Unmarshal(b, &rep); err != nil {
		fmt.Println(err)
		return 2
	}
	i := strings.LastIndexByte(rep.Harness, '.')
	h := HarnessSpec{Pkg: rep.Harness[:i], Entry: rep.Harness[i+1:], Native: true}
	_, bad := nativeRun(h, []map[string]interface{}{rep.Inputs}, rep.Bounds, true)
	nativeCleanup()
	if len(bad) > 0 && nativeInfraFailure(bad[0]) {
		fmt.Printf("native replay could not run: %s\n", bad[0])
		return 2
	}
	if len(bad) > 0 {
		fmt.Printf("reproduced natively: %s (class %s)\n", strings.Join(bad, "; "), rep.Class)
		return 1
	}
	fmt.Println("not reproduced natively")
	return 0
}
