package main

import (
	"encoding/json"
	"flag"
	"fmt"
	"os"
	"runtime"
	"strings"
	"time"

	"gjv/eng"
)

func main() {
	if len(os.Args) < 2 {
		fmt.Fprintln(os.Stderr, "usage: gjv run|check|replay|selftest ...")
		os.Exit(2)
	}
	switch os.Args[1] {
	case "run":
		os.Exit(cmdRun(os.Args[2:]))
	case "check":
		os.Exit(cmdCheck(os.Args[2:]))
	case "replay":
		os.Exit(cmdReplay(os.Args[2:]))
	case "selftest":
		os.Exit(cmdSelftest())
	default:
		fmt.Fprintln(os.Stderr, "unknown command", os.Args[1])
		os.Exit(2)
	}
}

// gjv run -pkg gjvharness/t0 -entry HarnessAbs [-P n] [-T n] ...
func cmdRun(args []string) int {
	fs := flag.NewFlagSet("run", flag.ExitOnError)
	pkg := fs.String("pkg", "", "harness package")
	entry := fs.String("entry", "", "harness function")
	P := fs.Int("P", 0, "pre-emption bound")
	T := fs.Int("T", 0, "timer firings")
	steps := fs.Int("steps", 2000000, "per-path step budget")
	paths := fs.Int("paths", 0, "max paths (0 = unlimited)")
	workers := fs.Int("workers", runtime.NumCPU(), "workers")
	solver := fs.String("solver", "z3", "z3|z3-new|cvc5")
	deadline := fs.Int("deadline", 0, "wall seconds (0 = none)")
	bounds := fs.String("bounds", "", "k=v,k=v harness bounds")
	verbose := fs.Bool("v", false, "verbose")
	kernels := fs.String("kernels", "", "virtual=real,... overlay files placed in /repo")
	fs.Parse(args)
	cfg := eng.LoadConfig{RepoDir: repoDir(), HarnessDir: harnessDir(), Patterns: []string{*pkg}, Kernels: parseKV(*kernels)}
	t0 := time.Now()
	p, err := eng.Load(cfg)
	if err != nil {
		fmt.Println("LOAD ERROR:", err)
		return 2
	}
	fmt.Printf("loaded in %.1fs\n", time.Since(t0).Seconds())
	fn := p.FuncByName(*pkg, *entry)
	if fn == nil {
		fmt.Println("no such harness:", *pkg, *entry)
		return 2
	}
	ex := &eng.Explorer{P: p, Entry: fn, Solver: *solver, Workers: *workers,
		B: eng.Bounds{Preempt: *P, Timers: *T, MaxSteps: *steps, MaxPaths: *paths, SolverMs: 20000, DeadlineS: *deadline, Params: parseKVInt(*bounds)}}
	t1 := time.Now()
	if err := ex.Explore(); err != nil {
		fmt.Println("EXPLORE ERROR:", err)
		return 2
	}
	fmt.Printf("paths=%d infeasible=%d decisions=%d steps=%d asserts=%d (smt %d) violations=%d inconclusive=%d unknowns=%d budget=%v in %.1fs\n",
		ex.Paths, ex.Infeasible, ex.Decisions, ex.Steps, ex.Asserts, ex.AssertsSMT, len(ex.Violations), len(ex.Inconclusive), ex.Unknowns, ex.Budget, time.Since(t1).Seconds())
	for k, s := range ex.SolverStats {
		fmt.Printf("solver %s: %d queries (%d sat, %d unsat, %d unknown) %.2fs\n", k, s.Queries, s.Sat, s.Unsat, s.Unknown, s.Seconds)
	}
	fmt.Println("reached:", ex.Reached)
	seen := map[string]int{}
	for _, v := range ex.Violations {
		seen[v.Class]++
		if seen[v.Class] > 2 && !*verbose {
			continue
		}
		b, _ := json.Marshal(v.Inputs)
		fmt.Printf("VIOLATION class=%s inputs=%s\n  at %s\n", v.Class, b, v.Msg)
		if *verbose {
			for _, s := range v.Obs {
				fmt.Println("    obs:", s)
			}
			for _, s := range v.Sched {
				fmt.Println("    ", s)
			}
		}
	}
	for c, n := range seen {
		fmt.Printf("class %s: %d paths\n", c, n)
	}
	inc := map[string]int{}
	for _, s := range ex.Inconclusive {
		inc[s]++
	}
	for s, n := range inc {
		fmt.Printf("INCONCLUSIVE x%d: %s\n", n, s)
	}
	if *verbose {
		for _, s := range ex.Samples {
			b, _ := json.Marshal(s)
			fmt.Println("sample:", string(b))
		}
		fmt.Println("functions:", strings.Join(ex.FnList(), "\n  "))
	}
	if len(ex.Violations) > 0 {
		return 1
	}
	if len(ex.Inconclusive) > 0 || ex.Budget {
		return 2
	}
	return 0
}

func repoDir() string {
	if d := os.Getenv("VERIF_REPO"); d != "" {
		return d
	}
	return "/repo"
}

func harnessDir() string {
	if d := os.Getenv("VERIF_HARNESS"); d != "" {
		return d
	}
	return "/verif/harness"
}

func parseKV(s string) map[string]string {
	out := map[string]string{}
	for _, kv := range strings.Split(s, ",") {
		if i := strings.IndexByte(kv, '='); i > 0 {
			out[kv[:i]] = kv[i+1:]
		}
	}
	return out
}

func parseKVInt(s string) map[string]int {
	out := map[string]int{}
	for k, v := range parseKV(s) {
		var n int
		fmt.Sscan(v, &n)
		out[k] = n
	}
	return out
}

// cmdSelftest checks the plumbing end to end on two tiny harnesses: the solver
// must find the one input that breaks abs(x) >= 0 and must prove a bounded
// arithmetic/map/string harness.
func cmdSelftest() int {
	p, err := eng.Load(eng.LoadConfig{RepoDir: repoDir(), HarnessDir: harnessDir(), Patterns: []string{"gjvharness/t0"}})
	if err != nil {
		fmt.Println("selftest: load:", err)
		return 2
	}
	for _, solver := range []string{"z3", "cvc5"} {
		ex := &eng.Explorer{P: p, Entry: p.FuncByName("gjvharness/t0", "HarnessAbs"), Solver: solver, Workers: 2, B: eng.Bounds{MaxSteps: 100000, SolverMs: 20000}}
		if err := ex.Explore(); err != nil {
			fmt.Println("selftest:", err)
			return 2
		}
		if len(ex.Violations) != 1 || fmt.Sprint(ex.Violations[0].Inputs["a"]) != "-9223372036854775808" {
			fmt.Printf("selftest(%s): expected the MinInt64 counterexample, got %v\n", solver, ex.Violations)
			return 2
		}
		ok := &eng.Explorer{P: p, Entry: p.FuncByName("gjvharness/t0", "HarnessOK"), Solver: solver, Workers: 2, B: eng.Bounds{MaxSteps: 100000, SolverMs: 20000}}
		if err := ok.Explore(); err != nil || len(ok.Violations) != 0 || len(ok.Inconclusive) != 0 || ok.Reached["done"] == 0 {
			fmt.Printf("selftest(%s): bounded harness did not verify: %v %v %v\n", solver, err, ok.Violations, ok.Inconclusive)
			return 2
		}
	}
	fmt.Println("selftest ok (z3, cvc5)")
	return 0
}
