package eng

// Intrinsics: registry, harness API (package verif), sync, atomic, errors,
// time, math, strings, misc no-op groups.

import (
	"fmt"
	"go/token"
	"go/types"
	"math"
	"strings"

	"golang.org/x/tools/go/ssa"
)

var baseIntrinsics = map[string]Intrinsic{}

const VerifPkg = "gjvharness/verif"

func registerIntrinsics(p *Program) {
	for k, v := range baseIntrinsics {
		p.Intr[k] = v
	}
}

func (p *Program) lookupIntrinsic(fn *ssa.Function) Intrinsic {
	if in, ok := p.Intr[fn.String()]; ok {
		return in
	}
	if o := fn.Origin(); o != nil {
		if in, ok := p.Intr[o.String()]; ok {
			return in
		}
	}
	return nil
}

func reg(name string, f Intrinsic) { baseIntrinsics[name] = f }

func regV(name string, f func(g *G, a []Value) Value) {
	baseIntrinsics[VerifPkg+"."+name] = func(g *G, fr *Frame, fn *ssa.Function, a []Value) Value { return f(g, a) }
}

func I64(v int64) Int { return Int{C: uint64(v)} }

func (g *G) model(name string) { g.run.modelsHit[name] = true }

func (r *Run) buildViolation(g *G, label, msg string) {
	if r.outcome != OutOK {
		return
	}
	res, model := r.W.solver.CheckWithModel(r.inputs)
	if res == Unsat {
		r.outcome = OutInfeasible
		return
	}
	v := &Violation{Label: label, Model: model, Trace: append([]Decision{}, r.trace...), Sched: append([]string{}, r.schedLog...), Msg: msg}
	v.Class = label
	if len(r.classTags) > 0 {
		v.Class += "/" + strings.Join(r.classTags, ",")
	}
	for _, t := range r.pc {
		v.PC = append(v.PC, t.Key())
	}
	if res == Sat {
		v.Inputs = r.decodeInputs(model)
	}
	v.Obs = append([]string{}, r.obs...)
	if bs := r.blockedSummary(); bs != "" {
		v.Obs = append(v.Obs, "blocked: "+bs)
	}
	r.violation = v
	r.outcome = OutViolation
	r.reason = label + ": " + msg
}

func (r *Run) processCrashed(g *G) {
	fn := "?"
	if g.top != nil && g.top.fn != nil {
		fn = g.top.fn.String()
	}
	r.classTags = append(r.classTags, "crash-in="+g.entry)
	_ = fn
	r.buildViolation(g, "process-crash", r.crashed)
}

func (r *Run) mainBlocked(g *G) {
	r.buildViolation(g, "main-blocked", r.blockedSummary())
}

func showPanicValue(g *G, v Value) string {
	switch x := v.(type) {
	case Iface:
		if x.T == nil {
			return "nil"
		}
		if s, ok := x.V.(Str); ok {
			return s.String()
		}
		return x.T.String() + " " + showVal(x.V)
	}
	return showVal(v)
}

func init() {
	// ---------------- verif API ----------------
	regV("Symbolic", func(g *G, a []Value) Value { return Bool{C: true} })
	regV("Int", func(g *G, a []Value) Value {
		name := concStr(g, a[0])
		return Int{T: g.run.newInput(name, SBV, 64, InputMeta{"int", 64})}
	})
	regV("Uint64", func(g *G, a []Value) Value {
		name := concStr(g, a[0])
		return Int{T: g.run.newInput(name, SBV, 64, InputMeta{"uint", 64})}
	})
	regV("Byte", func(g *G, a []Value) Value {
		name := concStr(g, a[0])
		return Int{T: g.run.newInput(name, SBV, 8, InputMeta{"uint", 8})}
	})
	regV("Bool", func(g *G, a []Value) Value {
		name := concStr(g, a[0])
		return Bool{T: g.run.newInput(name, SBool, 0, InputMeta{"bool", 0})}
	})
	regV("Float64", func(g *G, a []Value) Value {
		name := concStr(g, a[0])
		return F64{T: g.run.newInput(name, SFP, 0, InputMeta{"float", 0})}
	})
	regV("String", func(g *G, a []Value) Value {
		name := concStr(g, a[0])
		max := int(a[1].(Int).C)
		n := g.run.choose("strlen:"+name, max+1)
		bs := make([]*Term, n)
		for i := 0; i < n; i++ {
			bs[i] = g.run.newInput(fmt.Sprintf("%s_b%d", name, i), SBV, 8, InputMeta{"strbyte", 8})
			// ASCII only (valid UTF-8); stated assumption
			g.run.addPC(BVCmp("bvult", bs[i], BVConst(0x80, 8)))
		}
		g.run.strInputs[name] = bs
		return strFromBytes(bs)
	})
	regV("Bytes", func(g *G, a []Value) Value {
		name := concStr(g, a[0])
		max := int(a[1].(Int).C)
		n := g.run.choose("strlen:"+name, max+1)
		out := make(Slice, n)
		bs := make([]*Term, n)
		for i := 0; i < n; i++ {
			bs[i] = g.run.newInput(fmt.Sprintf("%s_b%d", name, i), SBV, 8, InputMeta{"strbyte", 8})
			out[i] = Int{T: bs[i]}
		}
		g.run.strInputs[name] = bs
		return out
	})
	regV("Choice", func(g *G, a []Value) Value {
		name := concStr(g, a[0])
		n := int(a[1].(Int).C)
		return I64(int64(g.run.choose("choice:"+name, n)))
	})
	regV("Assume", func(g *G, a []Value) Value {
		c := a[0].(Bool)
		if c.T == nil {
			if !c.C {
				g.run.fail(OutInfeasible, "assume(false)")
			}
			return nil
		}
		if g.run.check(c.T) == Unsat {
			g.run.fail(OutInfeasible, "assumption unsatisfiable")
		}
		g.run.addPC(c.T)
		return nil
	})
	regV("Assert", func(g *G, a []Value) Value {
		g.run.assertCond(g, a[0].(Bool), concStr(g, a[1]))
		return nil
	})
	regV("Reach", func(g *G, a []Value) Value {
		g.run.reached[concStr(g, a[0])] = true
		return nil
	})
	regV("Class", func(g *G, a []Value) Value {
		g.run.classTags = append(g.run.classTags, concStr(g, a[0]))
		return nil
	})
	regV("Note", func(g *G, a []Value) Value {
		if len(g.run.obs) < 64 {
			g.run.obs = append(g.run.obs, concStr(g, a[0]))
		}
		return nil
	})
	regV("Bound", func(g *G, a []Value) Value {
		name := concStr(g, a[0])
		if v, ok := g.run.B.Params[name]; ok {
			return I64(int64(v))
		}
		return a[1]
	})
	regV("Quiesce", func(g *G, a []Value) Value {
		r := g.run
		r.quiesceWait = true
		g.schedPoint(&Op{desc: "quiesce", isQuiesce: true, enabled: func() bool { return false }})
		return nil
	})
	regV("Crashed", func(g *G, a []Value) Value { return Bool{C: g.run.crashed != ""} })
	regV("LeftoverLib", func(g *G, a []Value) Value {
		l := g.run.leftover(true)
		if len(l) > 0 {
			var parts []string
			for _, x := range l {
				d := "running"
				if x.op != nil {
					d = x.op.desc
				}
				parts = append(parts, fmt.Sprintf("%s blocked at %s in %s", x.entry, d, x.where()))
			}
			g.run.obs = append(g.run.obs, "leftover: "+strings.Join(parts, "; "))
		}
		return I64(int64(len(l)))
	})
	regV("LeftoverDesc", func(g *G, a []Value) Value {
		l := g.run.leftover(true)
		var parts []string
		for _, x := range l {
			fn := "?"
			if x.top != nil && x.top.fn != nil {
				fn = x.top.fn.String()
			}
			parts = append(parts, x.entry+"@"+fn)
		}
		return S(strings.Join(parts, ";"))
	})
	regV("Daemon", func(g *G, a []Value) Value { g.daemon = true; return nil })

	// ---------------- sync ----------------
	reg("(*sync.Mutex).Lock", func(g *G, fr *Frame, fn *ssa.Function, a []Value) Value { g.mutexLock(a[0].(*Value)); return nil })
	reg("(*sync.Mutex).Unlock", func(g *G, fr *Frame, fn *ssa.Function, a []Value) Value { g.mutexUnlock(a[0].(*Value)); return nil })
	reg("(*sync.Mutex).TryLock", func(g *G, fr *Frame, fn *ssa.Function, a []Value) Value {
		m := g.run.mutexAt(a[0].(*Value))
		g.schedPoint(&Op{desc: "trylock", obj: m, enabled: func() bool { return true }})
		if m.locked || m.readers > 0 {
			return Bool{C: false}
		}
		m.locked = true
		m.owner = g
		return Bool{C: true}
	})
	reg("(*sync.RWMutex).Lock", func(g *G, fr *Frame, fn *ssa.Function, a []Value) Value { g.mutexLock(a[0].(*Value)); return nil })
	reg("(*sync.RWMutex).Unlock", func(g *G, fr *Frame, fn *ssa.Function, a []Value) Value { g.mutexUnlock(a[0].(*Value)); return nil })
	reg("(*sync.RWMutex).RLock", func(g *G, fr *Frame, fn *ssa.Function, a []Value) Value { g.mutexRLock(a[0].(*Value)); return nil })
	reg("(*sync.RWMutex).RUnlock", func(g *G, fr *Frame, fn *ssa.Function, a []Value) Value { g.mutexRUnlock(a[0].(*Value)); return nil })
	reg("(*sync.Once).Do", func(g *G, fr *Frame, fn *ssa.Function, a []Value) Value {
		g.onceDo(a[0].(*Value), a[1].(*Closure))
		return nil
	})
	reg("(*sync.WaitGroup).Add", func(g *G, fr *Frame, fn *ssa.Function, a []Value) Value {
		w := g.run.wgAt(a[0].(*Value))
		g.schedPoint(&Op{desc: "wg.Add", obj: w, enabled: func() bool { return true }})
		w.n += int64(a[1].(Int).C)
		if w.n < 0 {
			g.goPanicPlain("sync: negative WaitGroup counter")
		}
		return nil
	})
	reg("(*sync.WaitGroup).Done", func(g *G, fr *Frame, fn *ssa.Function, a []Value) Value {
		w := g.run.wgAt(a[0].(*Value))
		g.schedPoint(&Op{desc: "wg.Done", obj: w, enabled: func() bool { return true }})
		w.n--
		if w.n < 0 {
			g.goPanicPlain("sync: negative WaitGroup counter")
		}
		return nil
	})
	reg("(*sync.WaitGroup).Wait", func(g *G, fr *Frame, fn *ssa.Function, a []Value) Value {
		w := g.run.wgAt(a[0].(*Value))
		g.schedPoint(&Op{desc: "wg.Wait", obj: w, enabled: func() bool { return w.n == 0 }})
		return nil
	})

	// ---------------- sync/atomic ----------------
	atomicAdd := func(w int) Intrinsic {
		return func(g *G, fr *Frame, fn *ssa.Function, a []Value) Value {
			p := a[0].(*Value)
			g.schedPoint(&Op{desc: "atomic.Add", obj: p, enabled: func() bool { return true }})
			n := mkInt(BVBin("bvadd", (*p).(Int).Term(w), a[1].(Int).Term(w)))
			*p = n
			return n
		}
	}
	reg("sync/atomic.AddInt64", atomicAdd(64))
	reg("sync/atomic.AddUint64", atomicAdd(64))
	reg("sync/atomic.AddInt32", atomicAdd(32))
	reg("sync/atomic.AddUint32", atomicAdd(32))
	atomicLoad := func(g *G, fr *Frame, fn *ssa.Function, a []Value) Value {
		p := a[0].(*Value)
		g.schedPoint(&Op{desc: "atomic.Load", obj: p, enabled: func() bool { return true }})
		return load(p)
	}
	atomicStore := func(g *G, fr *Frame, fn *ssa.Function, a []Value) Value {
		p := a[0].(*Value)
		g.schedPoint(&Op{desc: "atomic.Store", obj: p, enabled: func() bool { return true }})
		store(p, a[1])
		return nil
	}
	for _, n := range []string{"Int64", "Uint64", "Int32", "Uint32", "Pointer", "Uintptr"} {
		reg("sync/atomic.Load"+n, atomicLoad)
		reg("sync/atomic.Store"+n, atomicStore)
	}
	atomicCAS := func(g *G, fr *Frame, fn *ssa.Function, a []Value) Value {
		p := a[0].(*Value)
		g.schedPoint(&Op{desc: "atomic.CAS", obj: p, enabled: func() bool { return true }})
		if g.branch(eqVals(g, *p, a[1])) {
			*p = a[2]
			return Bool{C: true}
		}
		return Bool{C: false}
	}
	for _, n := range []string{"Int64", "Uint64", "Int32", "Uint32"} {
		reg("sync/atomic.CompareAndSwap"+n, atomicCAS)
	}

	// ---------------- errors / fmt-ish handled in m_fmt.go ----------------

	// ---------------- math ----------------
	reg("math.Pow", func(g *G, fr *Frame, fn *ssa.Function, a []Value) Value {
		x, y := a[0].(F64), a[1].(F64)
		if x.T == nil && y.T == nil {
			return F64{C: math.Pow(x.C, y.C)}
		}
		g.model("math.Pow as uninterpreted function with axioms pow(x,y)>=1 for x>=1,y>=0 (symbolic arguments)")
		t := UF("uf_pow", SFP, 0, x.Term(), y.Term())
		// axioms: not NaN when args are not; pow(x>=1, y>=0) >= 1
		pre := And(FPCmp("fp.geq", x.Term(), FPConst(1)), FPCmp("fp.geq", y.Term(), FPConst(0)))
		ax := Or(Not(pre), FPCmp("fp.geq", t, FPConst(1)))
		g.run.addPC(ax)
		return F64{T: t}
	})
	reg("math.Trunc", func(g *G, fr *Frame, fn *ssa.Function, a []Value) Value {
		f := a[0].(F64)
		if f.T == nil {
			return F64{C: math.Trunc(f.C)}
		}
		return F64{T: &Term{Op: "fp.rti", S: SFP, Args: []*Term{f.T}}}
	})
	reg("math.Abs", func(g *G, fr *Frame, fn *ssa.Function, a []Value) Value {
		f := a[0].(F64)
		if f.T == nil {
			return F64{C: math.Abs(f.C)}
		}
		return F64{T: &Term{Op: "fp.abs", S: SFP, Args: []*Term{f.T}}}
	})
	reg("math.Floor", func(g *G, fr *Frame, fn *ssa.Function, a []Value) Value {
		f := a[0].(F64)
		if f.T == nil {
			return F64{C: math.Floor(f.C)}
		}
		g.inconclusive("math.Floor of a symbolic float")
		return nil
	})
	reg("math.NaN", func(g *G, fr *Frame, fn *ssa.Function, a []Value) Value { return F64{C: math.NaN()} })
	reg("math.Inf", func(g *G, fr *Frame, fn *ssa.Function, a []Value) Value {
		sign := a[0].(Int)
		if sign.T != nil {
			g.inconclusive("math.Inf with a symbolic sign")
		}
		if int64(sign.C) >= 0 {
			return F64{C: math.Inf(1)}
		}
		return F64{C: math.Inf(-1)}
	})
	reg("math.IsNaN", func(g *G, fr *Frame, fn *ssa.Function, a []Value) Value {
		return mkBool(FPPred("fp.isNaN", a[0].(F64).Term()))
	})
	reg("math.IsInf", func(g *G, fr *Frame, fn *ssa.Function, a []Value) Value {
		f := a[0].(F64).Term()
		sign := a[1].(Int)
		if sign.T != nil {
			g.inconclusive("math.IsInf with symbolic sign")
		}
		inf := FPPred("fp.isInfinite", f)
		switch s := int64(sign.C); {
		case s > 0:
			return mkBool(And(inf, FPCmp("fp.gt", f, FPConst(0))))
		case s < 0:
			return mkBool(And(inf, FPCmp("fp.lt", f, FPConst(0))))
		}
		return mkBool(inf)
	})
	reg("math.Float64bits", func(g *G, fr *Frame, fn *ssa.Function, a []Value) Value {
		f := a[0].(F64)
		if f.T != nil {
			g.inconclusive("Float64bits of symbolic float")
		}
		return Int{C: math.Float64bits(f.C)}
	})
	reg("math/rand.Float64", func(g *G, fr *Frame, fn *ssa.Function, a []Value) Value {
		if g.run.B.Params["symrand"] != 1 {
			g.model("math/rand.Float64 returns 0.25 (jitter is symbolic only in the back-off kernel harnesses)")
			return F64{C: 0.25}
		}
		g.model("math/rand.Float64 returns an arbitrary r with 0 <= r < 1")
		t := Var(g.run.fresh("rand"), SFP, 0)
		g.run.inputs = append(g.run.inputs, t)
		g.run.inputMeta[t.Name] = InputMeta{"float", 0}
		g.run.addPC(And(FPCmp("fp.geq", t, FPConst(0)), FPCmp("fp.lt", t, FPConst(1))))
		return F64{T: t}
	})

	// ---------------- strings / bytes on possibly symbolic data ----------------
	reg("strings.Contains", func(g *G, fr *Frame, fn *ssa.Function, a []Value) Value {
		r, unk := strContains(a[0].(Str), a[1].(Str))
		if unk {
			g.inconclusive("strings.Contains over opaque text")
		}
		return r
	})
	reg("strings.Index", func(g *G, fr *Frame, fn *ssa.Function, a []Value) Value {
		return I64(int64(strings.Index(concStr(g, a[0]), concStr(g, a[1]))))
	})
	reg("strings.ToLower", func(g *G, fr *Frame, fn *ssa.Function, a []Value) Value {
		s := a[0].(Str)
		if s.IsConc() {
			return S(strings.ToLower(s.C))
		}
		bs, ok := s.Bytes()
		if !ok {
			g.inconclusive("ToLower of opaque string")
		}
		g.model("strings.ToLower on symbolic ASCII bytes (bytes >= 0x80 excluded by the input assumption)")
		out := make([]*Term, len(bs))
		for i, b := range bs {
			up := And(BVCmp("bvuge", b, BVConst('A', 8)), BVCmp("bvule", b, BVConst('Z', 8)))
			out[i] = Ite(up, BVBin("bvadd", b, BVConst(32, 8)), b)
		}
		return strFromBytes(out)
	})
	reg("strings.ToUpper", func(g *G, fr *Frame, fn *ssa.Function, a []Value) Value {
		return S(strings.ToUpper(concStr(g, a[0])))
	})
	reg("strings.Join", func(g *G, fr *Frame, fn *ssa.Function, a []Value) Value {
		var out Str
		for i, e := range a[0].(Slice) {
			if i > 0 {
				out = strConcat(out, a[1].(Str))
			}
			out = strConcat(out, e.(Str))
		}
		return out
	})
	reg("strings.EqualFold", func(g *G, fr *Frame, fn *ssa.Function, a []Value) Value {
		return Bool{C: strings.EqualFold(concStr(g, a[0]), concStr(g, a[1]))}
	})
	reg("strings.TrimSpace", func(g *G, fr *Frame, fn *ssa.Function, a []Value) Value {
		return S(strings.TrimSpace(concStr(g, a[0])))
	})
	reg("strings.Split", func(g *G, fr *Frame, fn *ssa.Function, a []Value) Value {
		var out Slice
		for _, p := range strings.Split(concStr(g, a[0]), concStr(g, a[1])) {
			out = append(out, S(p))
		}
		return out
	})

	// ---------------- runtime ----------------
	reg("runtime.Gosched", func(g *G, fr *Frame, fn *ssa.Function, a []Value) Value {
		g.schedPoint(&Op{desc: "gosched", enabled: func() bool { return true }})
		return nil
	})
	reg("runtime.Goexit", func(g *G, fr *Frame, fn *ssa.Function, a []Value) Value { panic(goexit{}) })
	reg("runtime.NumGoroutine", func(g *G, fr *Frame, fn *ssa.Function, a []Value) Value {
		n := 0
		for _, x := range g.run.gs {
			if !x.done {
				n++
			}
		}
		return I64(int64(n))
	})
	reg("os.Getenv", func(g *G, fr *Frame, fn *ssa.Function, a []Value) Value { return S("") })

	// ---------------- tracing / labels: keep control flow, drop effects ----------------
	reg("runtime/pprof.Do", func(g *G, fr *Frame, fn *ssa.Function, a []Value) Value {
		return g.callFn(a[2].(*Closure), []Value{a[0]}, fr, token.NoPos)
	})
	reg("go.opencensus.io/trace.StartSpan", func(g *G, fr *Frame, fn *ssa.Function, a []Value) Value {
		return Tuple{a[0], (*Value)(nil)}
	})
	reg("go.opencensus.io/trace.StartSpanWithRemoteParent", func(g *G, fr *Frame, fn *ssa.Function, a []Value) Value {
		return Tuple{a[0], (*Value)(nil)}
	})
	reg("go.opencensus.io/tag.New", func(g *G, fr *Frame, fn *ssa.Function, a []Value) Value {
		return Tuple{a[0], Iface{}}
	})
	reg("go.opencensus.io/trace/propagation.FromBinary", func(g *G, fr *Frame, fn *ssa.Function, a []Value) Value {
		return Tuple{zero(fn.Signature.Results().At(0).Type()), Bool{C: true}}
	})
	reg("github.com/ipfs/go-log/v2.Logger", func(g *G, fr *Frame, fn *ssa.Function, a []Value) Value {
		p := new(Value)
		*p = zero(fn.Signature.Results().At(0).Type().Underlying().(*types.Pointer).Elem())
		return p
	})
}

func init() {
	regV("PaddedReader", func(g *G, a []Value) Value {
		head := g.asBlob(a[0])
		pad := a[1].(Int)
		p := new(Value)
		s := zero(g.run.P.NamedType("bytes", "Reader")).(Struct)
		b := &Blob{Segs: append(append([]BSeg{}, head.Segs...), BSeg{Pad: pad.Term(64)})}
		if pad.T == nil && pad.C == 0 {
			b = head
		}
		s[0] = b
		*p = s
		return Iface{T: types.NewPointer(g.run.P.NamedType("bytes", "Reader")), V: p}
	})
}

// strContains: does h contain n? Exact for strings without opaque tokens; with
// opaque tokens only a definite "yes" found inside a known run is returned.
func strContains(h, n Str) (Bool, bool) {
	if h.IsConc() && n.IsConc() {
		return Bool{C: strings.Contains(h.C, n.C)}, false
	}
	nb, ok := n.Bytes()
	if !ok {
		return Bool{}, true
	}
	var runs [][]*Term
	var cur []*Term
	opaque := false
	for _, sg := range h.segs() {
		switch {
		case sg.Q != "":
			opaque = true
			runs = append(runs, cur)
			cur = nil
		case sg.B != nil:
			cur = append(cur, sg.B)
		default:
			for i := 0; i < len(sg.C); i++ {
				cur = append(cur, BVConst(uint64(sg.C[i]), 8))
			}
		}
	}
	runs = append(runs, cur)
	res := FalseT
	for _, r := range runs {
		for off := 0; off+len(nb) <= len(r); off++ {
			c := TrueT
			for i := range nb {
				c = And(c, Eq(r[off+i], nb[i]))
				if c.IsConst() && !c.B {
					break
				}
			}
			res = Or(res, c)
			if res.IsConst() && res.B {
				return Bool{C: true}, false
			}
		}
	}
	if opaque {
		return Bool{}, true
	}
	return mkBool(res), false
}

type PoolObj struct{ items []Value }

func init() {
	pool := func(g *G, v Value) (*PoolObj, Struct) {
		p := v.(*Value)
		po := g.run.pools[p]
		if po == nil {
			po = &PoolObj{}
			g.run.pools[p] = po
		}
		return po, (*p).(Struct)
	}
	reg("(*sync.Pool).Get", func(g *G, fr *Frame, fn *ssa.Function, a []Value) Value {
		g.model("sync.Pool is a LIFO free list (no GC-driven eviction)")
		po, s := pool(g, a[0])
		g.schedPoint(&Op{desc: "pool.Get", obj: po, enabled: func() bool { return true }})
		if n := len(po.items); n > 0 {
			v := po.items[n-1]
			po.items = po.items[:n-1]
			return v
		}
		newFn, _ := fieldByName(g.run.P.NamedType("sync", "Pool"), s, "New").(*Closure)
		if newFn == nil {
			return Iface{}
		}
		return g.callFn(newFn, nil, g.top, token.NoPos)
	})
	reg("(*sync.Pool).Put", func(g *G, fr *Frame, fn *ssa.Function, a []Value) Value {
		po, _ := pool(g, a[0])
		g.schedPoint(&Op{desc: "pool.Put", obj: po, enabled: func() bool { return true }})
		if x, _ := a[1].(Iface); x.T != nil {
			po.items = append(po.items, a[1])
		}
		return nil
	})
}
