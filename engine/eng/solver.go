package eng

// One persistent solver process per worker. Per path: (push 1) ... (pop 1).
// Any "(error" line or "unknown" is reported as Unknown, never as a verdict.

import (
	"bufio"
	"fmt"
	"io"
	"os/exec"
	"strings"
	"time"
)

type SatResult int

const (
	Unsat SatResult = iota
	Sat
	Unknown
)

func (r SatResult) String() string { return [...]string{"unsat", "sat", "unknown"}[r] }

type Solver struct {
	Kind     string // z3 | z3-new | cvc5
	cmd      *exec.Cmd
	in       io.WriteCloser
	out      *bufio.Reader
	declared []map[string]bool // per push level
	Queries  int
	NSat     int
	NUnsat   int
	NUnknown int
	Time     time.Duration
	Log      io.Writer
	LastErr  string
	poisoned bool
}

func NewSolver(kind string, timeoutMs int) (*Solver, error) {
	var cmd *exec.Cmd
	switch kind {
	case "z3", "z3-new":
		cmd = exec.Command(kind, "-in", "-smt2", fmt.Sprintf("-t:%d", timeoutMs))
	case "cvc5":
		cmd = exec.Command("cvc5", "--incremental", "--lang=smt2", fmt.Sprintf("--tlimit-per=%d", timeoutMs), "--fp-exp")
	default:
		return nil, fmt.Errorf("unknown solver %q", kind)
	}
	in, err := cmd.StdinPipe()
	if err != nil {
		return nil, err
	}
	outp, err := cmd.StdoutPipe()
	if err != nil {
		return nil, err
	}
	cmd.Stderr = cmd.Stdout
	if err := cmd.Start(); err != nil {
		return nil, err
	}
	s := &Solver{Kind: kind, cmd: cmd, in: in, out: bufio.NewReader(outp), declared: []map[string]bool{{}}}
	if kind == "cvc5" {
		s.send("(set-logic ALL)")
	}
	s.send("(set-option :produce-models true)")
	return s, nil
}

func (s *Solver) Close() {
	if s == nil || s.cmd == nil {
		return
	}
	s.in.Close()
	done := make(chan struct{})
	go func() { s.cmd.Wait(); close(done) }()
	select {
	case <-done:
	case <-time.After(2 * time.Second):
		s.cmd.Process.Kill()
	}
}

func (s *Solver) send(line string) {
	if s.Log != nil {
		fmt.Fprintln(s.Log, line)
	}
	io.WriteString(s.in, line)
	io.WriteString(s.in, "\n")
}

func (s *Solver) Push() {
	s.send("(push 1)")
	s.declared = append(s.declared, map[string]bool{})
}

func (s *Solver) Pop() {
	s.send("(pop 1)")
	s.declared = s.declared[:len(s.declared)-1]
}

// PopTo pops down to the given depth (number of pushes).
func (s *Solver) Depth() int { return len(s.declared) - 1 }

func (s *Solver) isDeclared(name string) bool {
	for _, m := range s.declared {
		if m[name] {
			return true
		}
	}
	return false
}

func (s *Solver) declareVars(t *Term) {
	vs := map[string]*Term{}
	t.Vars(vs)
	for n, v := range vs {
		if !s.isDeclared(n) {
			s.send(fmt.Sprintf("(declare-const %s %s)", n, SortDecl(v)))
			s.declared[len(s.declared)-1][n] = true
		}
	}
	s.declareUFs(t)
}

func (s *Solver) declareUFs(t *Term) {
	if strings.HasPrefix(t.Op, "uf_") && !s.isDeclared("uf:"+t.Op) {
		var as []string
		for _, a := range t.Args {
			as = append(as, SortDecl(a))
		}
		s.send(fmt.Sprintf("(declare-fun %s (%s) %s)", t.Op, strings.Join(as, " "), SortDecl(t)))
		s.declared[len(s.declared)-1]["uf:"+t.Op] = true
	}
	for _, a := range t.Args {
		s.declareUFs(a)
	}
}

func (s *Solver) Assert(t *Term) {
	s.declareVars(t)
	s.send("(assert " + t.Key() + ")")
}

func (s *Solver) readLine() (string, error) {
	l, err := s.out.ReadString('\n')
	return strings.TrimSpace(l), err
}

// Check asks (check-sat) under the current assertions plus extra (scoped).
func (s *Solver) Check(extra ...*Term) SatResult {
	t0 := time.Now()
	if len(extra) > 0 {
		s.Push()
		for _, e := range extra {
			s.Assert(e)
		}
	}
	s.send("(check-sat)")
	res := s.readVerdict()
	if len(extra) > 0 {
		s.Pop()
	}
	s.Queries++
	s.Time += time.Since(t0)
	switch res {
	case Sat:
		s.NSat++
	case Unsat:
		s.NUnsat++
	default:
		s.NUnknown++
	}
	return res
}

func (s *Solver) readVerdict() SatResult {
	for {
		l, err := s.readLine()
		if err != nil {
			s.LastErr = "solver died: " + err.Error()
			return Unknown
		}
		switch {
		case l == "sat":
			return Sat
		case l == "unsat":
			return Unsat
		case l == "unknown" || l == "timeout":
			return Unknown
		case strings.HasPrefix(l, "(error"):
			s.LastErr = l
			// keep reading: the verdict line still follows, but it is not trusted
			s.poisoned = true
		case l == "" || l == "success":
		default:
			// unexpected chatter
			s.LastErr = l
		}
		if s.poisoned {
			// read the verdict that follows the error and discard it
			for {
				l2, err := s.readLine()
				if err != nil || l2 == "sat" || l2 == "unsat" || l2 == "unknown" {
					break
				}
			}
			s.poisoned = false
			return Unknown
		}
	}
}

// CheckWithModel: like Check(extra...) but on Sat also returns values of the
// requested variables (evaluated inside the scope).
func (s *Solver) CheckWithModel(vars []*Term, extra ...*Term) (SatResult, map[string]string) {
	t0 := time.Now()
	s.Push()
	for _, e := range extra {
		s.Assert(e)
	}
	for _, v := range vars {
		s.declareVars(v)
	}
	s.send("(check-sat)")
	res := s.readVerdict()
	var model map[string]string
	if res == Sat && len(vars) > 0 {
		model = map[string]string{}
		for _, v := range vars {
			s.send("(get-value (" + v.Key() + "))")
			txt := s.readSexp()
			// ((name value))
			txt = strings.TrimSpace(txt)
			txt = strings.TrimPrefix(txt, "((")
			txt = strings.TrimSuffix(txt, "))")
			txt = strings.TrimSpace(strings.TrimPrefix(txt, v.Key()))
			model[v.Name] = txt
		}
	}
	s.Pop()
	s.Queries++
	s.Time += time.Since(t0)
	switch res {
	case Sat:
		s.NSat++
	case Unsat:
		s.NUnsat++
	default:
		s.NUnknown++
	}
	return res, model
}

func (s *Solver) readSexp() string {
	depth := 0
	var sb strings.Builder
	started := false
	for {
		c, err := s.out.ReadByte()
		if err != nil {
			return sb.String()
		}
		if !started && (c == '\n' || c == ' ' || c == '\r') {
			continue
		}
		started = true
		sb.WriteByte(c)
		if c == '(' {
			depth++
		} else if c == ')' {
			depth--
			if depth == 0 {
				return sb.String()
			}
		} else if depth == 0 && c == '\n' {
			return sb.String()
		}
	}
}

