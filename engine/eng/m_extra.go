package eng

// Models that the unchanged library does not need but that plausible
// refactorings reach: typed atomics, atomic.Value, strings.Builder, sync.Map,
// time.AfterFunc, context causes, a few json / bytes extras. They exist so that
// a behaviour-preserving change does not end in an inconclusive run.

import (
	"fmt"
	"go/token"
	"go/types"
	"strconv"
	"strings"

	"golang.org/x/tools/go/ssa"
)

// typed atomics (atomic.Int64 etc.) are thin wrappers over the modelled functions
func isTypedAtomicMethod(fn *ssa.Function) bool {
	return fnPkgPath(fn) == "sync/atomic" && fn.Signature.Recv() != nil && fn.Blocks != nil &&
		!strings.Contains(fn.String(), "atomic.Value)")
}

type anyBox struct{ v Value }

func init() {
	// ---- atomic.Value ----
	av := func(g *G, p Value) *anyBox {
		ptr := p.(*Value)
		b := g.run.atomicVals[ptr]
		if b == nil {
			b = &anyBox{v: Iface{}}
			g.run.atomicVals[ptr] = b
		}
		return b
	}
	reg("(*sync/atomic.Value).Load", func(g *G, fr *Frame, fn *ssa.Function, a []Value) Value {
		b := av(g, a[0])
		g.schedPoint(&Op{desc: "atomic.Value.Load", obj: b, enabled: func() bool { return true }})
		g.hbAcquire(b)
		return b.v
	})
	reg("(*sync/atomic.Value).Store", func(g *G, fr *Frame, fn *ssa.Function, a []Value) Value {
		b := av(g, a[0])
		if x, _ := a[1].(Iface); x.T == nil {
			g.goPanicPlain("sync/atomic: store of nil value into Value")
		}
		g.hbRelease(b)
		g.schedPoint(&Op{desc: "atomic.Value.Store", obj: b, enabled: func() bool { return true }})
		b.v = a[1]
		return nil
	})
	reg("(*sync/atomic.Value).Swap", func(g *G, fr *Frame, fn *ssa.Function, a []Value) Value {
		b := av(g, a[0])
		g.schedPoint(&Op{desc: "atomic.Value.Swap", obj: b, enabled: func() bool { return true }})
		old := b.v
		b.v = a[1]
		return old
	})
	for _, n := range []string{"Int64", "Uint64", "Int32", "Uint32", "Uintptr", "Pointer"} {
		reg("sync/atomic.Swap"+n, func(g *G, fr *Frame, fn *ssa.Function, a []Value) Value {
			p := a[0].(*Value)
			g.schedPoint(&Op{desc: "atomic.Swap", obj: p, enabled: func() bool { return true }})
			old := load(p)
			store(p, a[1])
			return old
		})
	}
	reg("sync/atomic.CompareAndSwapPointer", baseIntrinsics["sync/atomic.CompareAndSwapInt64"])

	// ---- strings.Builder: content kept in the buf field as a Str ----
	sb := func(g *G, p Value) Struct {
		ptr, _ := p.(*Value)
		if ptr == nil {
			g.goPanic("runtime error: invalid memory address or nil pointer dereference")
		}
		s := (*ptr).(Struct)
		if _, ok := s[len(s)-1].(Str); !ok {
			s[len(s)-1] = Str{}
		}
		return s
	}
	sbAppend := func(g *G, p Value, add Str) {
		s := sb(g, p)
		s[len(s)-1] = strConcat(s[len(s)-1].(Str), add)
	}
	reg("(*strings.Builder).WriteString", func(g *G, fr *Frame, fn *ssa.Function, a []Value) Value {
		sbAppend(g, a[0], a[1].(Str))
		return Tuple{g.lenOf(a[1]), Iface{}}
	})
	reg("(*strings.Builder).WriteByte", func(g *G, fr *Frame, fn *ssa.Function, a []Value) Value {
		sbAppend(g, a[0], strFromBytes([]*Term{a[1].(Int).Term(8)}))
		return Iface{}
	})
	reg("(*strings.Builder).WriteRune", func(g *G, fr *Frame, fn *ssa.Function, a []Value) Value {
		r := a[1].(Int)
		if r.T != nil {
			g.inconclusive("strings.Builder.WriteRune of a symbolic rune")
		}
		s := string(rune(int32(r.C)))
		sbAppend(g, a[0], S(s))
		return Tuple{I64(int64(len(s))), Iface{}}
	})
	reg("(*strings.Builder).Write", func(g *G, fr *Frame, fn *ssa.Function, a []Value) Value {
		str := g.conv(types.Typ[types.String], types.NewSlice(types.Typ[types.Uint8]), a[1]).(Str)
		sbAppend(g, a[0], str)
		return Tuple{g.lenOf(str), Iface{}}
	})
	reg("(*strings.Builder).String", func(g *G, fr *Frame, fn *ssa.Function, a []Value) Value {
		s := sb(g, a[0])
		return s[len(s)-1]
	})
	reg("(*strings.Builder).Len", func(g *G, fr *Frame, fn *ssa.Function, a []Value) Value {
		s := sb(g, a[0])
		return g.lenOf(s[len(s)-1])
	})
	reg("(*strings.Builder).Reset", func(g *G, fr *Frame, fn *ssa.Function, a []Value) Value {
		s := sb(g, a[0])
		s[len(s)-1] = Str{}
		return nil
	})
	reg("(*strings.Builder).Grow", func(g *G, fr *Frame, fn *ssa.Function, a []Value) Value { return nil })

	// ---- sync.Map ----
	sm := func(g *G, p Value) *MapV {
		ptr := p.(*Value)
		m := g.run.syncMaps[ptr]
		if m == nil {
			m = &MapV{}
			g.run.syncMaps[ptr] = m
		}
		return m
	}
	smPoint := func(g *G, m *MapV, what string) {
		g.schedPoint(&Op{desc: "sync.Map." + what, obj: m, enabled: func() bool { return true }})
	}
	reg("(*sync.Map).Load", func(g *G, fr *Frame, fn *ssa.Function, a []Value) Value {
		m := sm(g, a[0])
		smPoint(g, m, "Load")
		g.hbAcquire(m)
		if i := g.mapFind(m, a[1]); i >= 0 {
			return Tuple{m.Vals[i], Bool{C: true}}
		}
		return Tuple{Iface{}, Bool{C: false}}
	})
	reg("(*sync.Map).Store", func(g *G, fr *Frame, fn *ssa.Function, a []Value) Value {
		m := sm(g, a[0])
		g.hbRelease(m)
		smPoint(g, m, "Store")
		g.mapSet(m, a[1], a[2])
		return nil
	})
	reg("(*sync.Map).Delete", func(g *G, fr *Frame, fn *ssa.Function, a []Value) Value {
		m := sm(g, a[0])
		smPoint(g, m, "Delete")
		g.mapDelete(m, a[1])
		return nil
	})
	reg("(*sync.Map).LoadOrStore", func(g *G, fr *Frame, fn *ssa.Function, a []Value) Value {
		m := sm(g, a[0])
		smPoint(g, m, "LoadOrStore")
		if i := g.mapFind(m, a[1]); i >= 0 {
			return Tuple{m.Vals[i], Bool{C: true}}
		}
		g.mapSet(m, a[1], a[2])
		return Tuple{a[2], Bool{C: false}}
	})
	reg("(*sync.Map).LoadAndDelete", func(g *G, fr *Frame, fn *ssa.Function, a []Value) Value {
		m := sm(g, a[0])
		smPoint(g, m, "LoadAndDelete")
		if i := g.mapFind(m, a[1]); i >= 0 {
			v := m.Vals[i]
			g.mapDelete(m, a[1])
			return Tuple{v, Bool{C: true}}
		}
		return Tuple{Iface{}, Bool{C: false}}
	})
	reg("(*sync.Map).Range", func(g *G, fr *Frame, fn *ssa.Function, a []Value) Value {
		m := sm(g, a[0])
		smPoint(g, m, "Range")
		ks := append([]Value{}, m.Keys...)
		vs := append([]Value{}, m.Vals...)
		for i := range ks {
			if !g.branch(g.callFn(a[1].(*Closure), []Value{ks[i], vs[i]}, g.top, token.NoPos).(Bool)) {
				break
			}
		}
		return nil
	})

	// ---- time.AfterFunc: firing runs f in a new goroutine ----
	reg("time.AfterFunc", func(g *G, fr *Frame, fn *ssa.Function, a []Value) Value {
		g.schedPoint(&Op{desc: "time.AfterFunc", enabled: func() bool { return true }})
		t := g.run.env.newTimer(a[0], false)
		t.fn = a[1].(*Closure)
		t.owner = g
		tt := g.run.P.NamedType("time", "Timer")
		p := new(Value)
		*p = zero(tt)
		t.cell = p
		return p
	})

	// ---- context extras ----
	reg("context.WithCancelCause", func(g *G, fr *Frame, fn *ssa.Function, a []Value) Value {
		parent := g.ctxObj(a[0])
		c := g.newCancelCtx(parent)
		cancel := &Closure{Name: "cancelCause:" + c.String(), Native: func(g *G, args []Value) Value {
			g.schedPoint(&Op{desc: "cancel " + c.String(), obj: c, enabled: func() bool { return true }})
			if c.err == nil {
				c.cause = args[0]
			}
			g.ctxCancel(c, g.canceledErr())
			return nil
		}}
		return Tuple{g.ctxIface(c), cancel}
	})
	reg("context.Cause", func(g *G, fr *Frame, fn *ssa.Function, a []Value) Value {
		c := g.ctxObj(a[0]).canceler()
		for ; c != nil; c = c.parentCanceler() {
			if c.err != nil {
				if x, _ := c.cause.(Iface); x.T != nil {
					return c.cause
				}
				return c.err
			}
		}
		return Iface{}
	})
	reg("context.WithoutCancel", func(g *G, fr *Frame, fn *ssa.Function, a []Value) Value {
		parent := g.ctxObj(a[0])
		r := g.run
		r.nextObj++
		// a value-carrying context that hides the parent's cancellation
		return g.ctxIface(&CtxObj{id: r.nextObj, kind: "value", parent: &CtxObj{kind: "background", values: parent}, key: Iface{}, val: Iface{}})
	})
	reg("context.AfterFunc", func(g *G, fr *Frame, fn *ssa.Function, a []Value) Value {
		c := g.ctxObj(a[0]).canceler()
		f := a[1].(*Closure)
		stopped := false
		if c != nil {
			if c.err != nil {
				g.spawn(f, nil, fr, token.NoPos)
			} else {
				c.afterFuncs = append(c.afterFuncs, func(g2 *G) {
					if !stopped {
						stopped = true
						g2.spawn(f, nil, nil, token.NoPos)
					}
				})
			}
		}
		stop := &Closure{Name: "stopAfterFunc", Native: func(g *G, args []Value) Value {
			was := !stopped
			stopped = true
			return Bool{C: was}
		}}
		return stop
	})

	// ---- json / bytes extras ----
	reg("encoding/json.MarshalIndent", func(g *G, fr *Frame, fn *ssa.Function, a []Value) Value {
		g.model("json.MarshalIndent = Marshal (whitespace is not modelled)")
		b, err := g.jsonMarshal(a[0])
		if b == nil {
			return Tuple{Slice(nil), err}
		}
		return Tuple{b, err}
	})
	reg("(*encoding/json.Encoder).SetEscapeHTML", func(g *G, fr *Frame, fn *ssa.Function, a []Value) Value { return nil })
	reg("(*encoding/json.Encoder).SetIndent", func(g *G, fr *Frame, fn *ssa.Function, a []Value) Value { return nil })
	reg("(*encoding/json.Decoder).DisallowUnknownFields", func(g *G, fr *Frame, fn *ssa.Function, a []Value) Value {
		g.inconclusive("json.Decoder.DisallowUnknownFields is not modelled")
		return nil
	})
	reg("(*encoding/json.Decoder).More", func(g *G, fr *Frame, fn *ssa.Function, a []Value) Value {
		d := (*a[0].(*Value)).(*JDecoder)
		if !d.eof {
			content, _ := g.readAllFrom(d.r)
			d.eof = true
			d.buf = blobConcat(g, d.buf, content)
		}
		return Bool{C: len(d.buf.trimSpace().Segs) > 0}
	})
	reg("(*bytes.Buffer).Grow", func(g *G, fr *Frame, fn *ssa.Function, a []Value) Value { return nil })
	reg("(*bytes.Buffer).Truncate", func(g *G, fr *Frame, fn *ssa.Function, a []Value) Value {
		n := a[1].(Int)
		if n.T != nil || n.C != 0 {
			g.inconclusive("bytes.Buffer.Truncate(n != 0)")
		}
		s, _ := bufContent(g, a[0])
		s[0] = Slice(nil)
		return nil
	})
	reg("(*bytes.Buffer).Cap", func(g *G, fr *Frame, fn *ssa.Function, a []Value) Value {
		_, cur := bufContent(g, a[0])
		return cur.Len(g)
	})
	reg("errors.Join", func(g *G, fr *Frame, fn *ssa.Function, a []Value) Value {
		var first Value = Iface{}
		var msg Str
		n := 0
		for _, e := range sliceArgs(a[0]) {
			x, _ := e.(Iface)
			if x.T == nil {
				continue
			}
			if n == 0 {
				first = x
			} else {
				msg = strConcat(msg, S("\n"))
			}
			msg = strConcat(msg, g.errorString(x))
			n++
		}
		if n == 0 {
			return Iface{}
		}
		return g.mkError(msg, first)
	})
}

func init() {
	// sync.OnceFunc / OnceValue / OnceValues: f runs once; later calls return the same result.
	// (If f panics, every call re-panics with the same value.)
	once := func(nres int) Intrinsic {
		return func(g *G, fr *Frame, fn *ssa.Function, a []Value) Value {
			f := a[0].(*Closure)
			o := &Once{}
			var result Value
			var panicked *targetPanic
			return &Closure{Name: "sync.Once*", Native: func(g *G, args []Value) Value {
				g.schedPoint(&Op{desc: "oncefunc", obj: o, enabled: func() bool { return !o.running }})
				if !o.done {
					o.running = true
					func() {
						defer func() {
							o.running = false
							o.done = true
							g.hbRelease(o)
							if p := recover(); p != nil {
								if tp, ok := p.(targetPanic); ok {
									panicked = &tp
									return
								}
								panic(p)
							}
						}()
						result = g.callFn(f, nil, g.top, token.NoPos)
					}()
				} else {
					g.hbAcquire(o)
				}
				if panicked != nil {
					panic(*panicked)
				}
				if nres == 0 {
					return nil
				}
				return result
			}}
		}
	}
	reg("sync.OnceFunc", once(0))
	reg("sync.OnceValue", once(1))
	reg("sync.OnceValues", once(2))
}

// goQuoteBytes: strconv.Quote semantics for ASCII strings with symbolic bytes
// (forks on the escape class of each symbolic byte).
func (g *G) goQuoteBytes(s Str) []*Term {
	bs, ok := s.Bytes()
	if !ok {
		g.inconclusive("strconv.Quote of an opaque string")
	}
	c8 := func(c byte) *Term { return BVConst(uint64(c), 8) }
	hex := func(n *Term) *Term {
		return Ite(BVCmp("bvult", n, c8(10)), BVBin("bvadd", n, c8('0')), BVBin("bvadd", n, c8('a'-10)))
	}
	out := []*Term{c8('"')}
	for _, b := range bs {
		eq := func(c byte) *Term { return Eq(b, c8(c)) }
		two := Or(eq('"'), Or(eq('\\'), Or(eq(7), Or(eq(8), Or(eq(12), Or(eq('\n'), Or(eq('\r'), Or(eq('\t'), eq(11)))))))))
		four := And(Not(two), Or(BVCmp("bvult", b, c8(0x20)), eq(0x7f)))
		switch {
		case g.branch(mkBool(two)):
			// fork on the character so that the escape letter is concrete (a reader of the
			// quoted text can then decide what it means)
			second := byte('v')
			for _, p := range [][2]byte{{'"', '"'}, {'\\', '\\'}, {7, 'a'}, {8, 'b'}, {12, 'f'}, {'\n', 'n'}, {'\r', 'r'}, {'\t', 't'}} {
				if g.branch(mkBool(eq(p[0]))) {
					second = p[1]
					break
				}
			}
			out = append(out, c8('\\'), c8(second))
		case g.branch(mkBool(four)):
			out = append(out, c8('\\'), c8('x'), hex(BVBin("bvlshr", b, c8(4))), hex(BVBin("bvand", b, c8(15))))
		default:
			out = append(out, b)
		}
	}
	return append(out, c8('"'))
}

func init() {
	reg("strconv.Quote", func(g *G, fr *Frame, fn *ssa.Function, a []Value) Value {
		s := a[0].(Str)
		if s.IsConc() {
			return S(strconv.Quote(s.C))
		}
		return strFromBytes(g.goQuoteBytes(s))
	})
	reg("strconv.AppendQuote", func(g *G, fr *Frame, fn *ssa.Function, a []Value) Value {
		s := a[1].(Str)
		var q *Blob
		if s.IsConc() {
			q = blobBytes([]byte(strconv.Quote(s.C)))
		} else {
			q = blobFromTerms(g.goQuoteBytes(s))
		}
		return blobConcat(g, g.asBlob(a[0]), q)
	})
	appendInt := func(signed bool) Intrinsic {
		return func(g *G, fr *Frame, fn *ssa.Function, a []Value) Value {
			v := a[1].(Int)
			base := a[2].(Int)
			if base.T != nil {
				g.inconclusive("strconv.AppendInt with a symbolic base")
			}
			if v.T == nil {
				var txt string
				if signed {
					txt = strconv.FormatInt(int64(v.C), int(base.C))
				} else {
					txt = strconv.FormatUint(v.C, int(base.C))
				}
				return blobConcat(g, g.asBlob(a[0]), blobBytes([]byte(txt)))
			}
			if base.C != 10 {
				g.inconclusive("strconv.AppendInt of a symbolic value in a base other than 10")
			}
			// the decimal text of a symbolic integer is a JSON number token with that value
			x := v
			return blobConcat(g, g.asBlob(a[0]), &Blob{Segs: []BSeg{{D: &Doc{K: DNum, NI: &x, NSigned: signed}}}})
		}
	}
	reg("strconv.AppendInt", appendInt(true))
	reg("strconv.AppendUint", appendInt(false))
	reg("strconv.FormatInt", func(g *G, fr *Frame, fn *ssa.Function, a []Value) Value {
		v := a[0].(Int)
		if v.T != nil {
			return Str{Segs: []Seg{{Q: "itoa_s(" + v.T.Key() + ")"}}}
		}
		return S(strconv.FormatInt(int64(v.C), int(a[1].(Int).C)))
	})
	reg("strconv.FormatFloat", func(g *G, fr *Frame, fn *ssa.Function, a []Value) Value {
		v := a[0].(F64)
		f, p, b := a[1].(Int), a[2].(Int), a[3].(Int)
		if f.T != nil || p.T != nil || b.T != nil {
			g.inconclusive("strconv.FormatFloat with symbolic format arguments")
		}
		if v.T != nil {
			// opaque text of a symbolic float (only equal to itself)
			return Str{Segs: []Seg{{Q: fmt.Sprintf("ftoa_%c%d_%d(%s)", byte(f.C), int64(p.C), int64(b.C), v.T.Key())}}}
		}
		return S(strconv.FormatFloat(v.C, byte(f.C), int(int64(p.C)), int(int64(b.C))))
	})
	reg("strconv.FormatBool", func(g *G, fr *Frame, fn *ssa.Function, a []Value) Value {
		if g.branch(a[0].(Bool)) {
			return S("true")
		}
		return S("false")
	})
	reg("strconv.FormatUint", func(g *G, fr *Frame, fn *ssa.Function, a []Value) Value {
		v := a[0].(Int)
		if v.T != nil {
			return Str{Segs: []Seg{{Q: "itoa_u(" + v.T.Key() + ")"}}}
		}
		return S(strconv.FormatUint(v.C, int(a[1].(Int).C)))
	})
	reg("strconv.Atoi", func(g *G, fr *Frame, fn *ssa.Function, a []Value) Value {
		n, err := strconv.Atoi(concStr(g, a[0]))
		if err != nil {
			return Tuple{Int{}, g.mkError(S(err.Error()), Iface{})}
		}
		return Tuple{I64(int64(n)), Iface{}}
	})
	reg("strconv.ParseInt", func(g *G, fr *Frame, fn *ssa.Function, a []Value) Value {
		n, err := strconv.ParseInt(concStr(g, a[0]), int(a[1].(Int).C), int(a[2].(Int).C))
		if err != nil {
			return Tuple{Int{}, g.mkError(S(err.Error()), Iface{})}
		}
		return Tuple{I64(n), Iface{}}
	})
}

// bytes.HasPrefix / HasSuffix / TrimPrefix / TrimSuffix with a concrete affix over blobs: fully
// byte-level blobs are compared term by term; for abstract (document) blobs a one-byte affix is
// decided from the first / last byte of the serialisation, which is what "is this a batch?" needs.
func init() {
	affix := func(g *G, a []Value, suffix bool, what string) (Bool, *Blob, int) {
		if isNilBytes(a[0]) {
			p, _ := g.asBlob(a[1]).ConcreteBytes()
			return Bool{C: len(p) == 0}, nil, 0
		}
		b := g.asBlob(a[0])
		p, ok := g.asBlob(a[1]).ConcreteBytes()
		if isNilBytes(a[1]) {
			p, ok = nil, true
		}
		if !ok {
			g.inconclusive(what + " with a symbolic affix")
		}
		if len(p) == 0 {
			return Bool{C: true}, b, 0
		}
		if ts, ok := b.byteTerms(); ok {
			if len(ts) < len(p) {
				return Bool{C: false}, b, len(p)
			}
			c := TrueT
			for i := range p {
				t := ts[i]
				if suffix {
					t = ts[len(ts)-len(p)+i]
				}
				c = And(c, Eq(t, BVConst(uint64(p[i]), 8)))
			}
			return mkBool(c), b, len(p)
		}
		if len(p) != 1 {
			g.inconclusive(what + " of an abstract payload with a multi-byte affix")
		}
		n := b.Len(g).(Int)
		if len(b.Segs) == 0 || g.branch(mkBool(Eq(n.Term(64), BVConst(0, 64)))) {
			return Bool{C: false}, b, 1
		}
		idx := Int{C: 0}
		if suffix {
			idx = mkInt(BVBin("bvsub", n.Term(64), BVConst(1, 64)))
		}
		cell := b.IndexAddr(g, idx).(*Value)
		by := (*cell).(Int)
		return mkBool(Eq(by.Term(8), BVConst(uint64(p[0]), 8))), b, 1
	}
	reg("bytes.HasPrefix", func(g *G, fr *Frame, fn *ssa.Function, a []Value) Value {
		r, _, _ := affix(g, a, false, "bytes.HasPrefix")
		return r
	})
	reg("bytes.HasSuffix", func(g *G, fr *Frame, fn *ssa.Function, a []Value) Value {
		r, _, _ := affix(g, a, true, "bytes.HasSuffix")
		return r
	})
	reg("bytes.TrimPrefix", func(g *G, fr *Frame, fn *ssa.Function, a []Value) Value {
		r, b, n := affix(g, a, false, "bytes.TrimPrefix")
		if b == nil || n == 0 || !g.branch(r) {
			return a[0]
		}
		lo := Int{C: uint64(n)}
		return b.SliceOp(g, &lo, nil)
	})
	reg("bytes.TrimSuffix", func(g *G, fr *Frame, fn *ssa.Function, a []Value) Value {
		r, b, n := affix(g, a, true, "bytes.TrimSuffix")
		if b == nil || n == 0 || !g.branch(r) {
			return a[0]
		}
		ln := b.Len(g).(Int)
		hi := mkInt(BVBin("bvsub", ln.Term(64), BVConst(uint64(n), 64)))
		return b.SliceOp(g, nil, &hi)
	})
}
