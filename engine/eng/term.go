package eng

// Terms: the symbolic side of values. Everything concrete is folded away by
// the constructors, so a *Term that survives is genuinely symbolic.
// Sorts: Bool, BitVec(w), Float64 (FloatingPoint 11 53), RoundingMode is implicit.

import (
	"fmt"
	"math"
	"strings"
)

type Sort uint8

const (
	SBool Sort = iota
	SBV
	SFP
)

type Term struct {
	Op   string // "var", "const", or SMT-LIB operator
	S    Sort
	W    int // width for SBV
	Args []*Term
	Name string  // var
	BV   uint64  // const SBV
	B    bool    // const SBool
	F    float64 // const SFP
	X, Y int     // extract hi/lo, extend amount
	key  string
}

func mask(w int) uint64 {
	if w >= 64 {
		return ^uint64(0)
	}
	return (uint64(1) << uint(w)) - 1
}

func (t *Term) IsConst() bool { return t.Op == "const" }

func BVConst(v uint64, w int) *Term { return &Term{Op: "const", S: SBV, W: w, BV: v & mask(w)} }
func BoolConst(b bool) *Term       { return &Term{Op: "const", S: SBool, B: b} }
func FPConst(f float64) *Term      { return &Term{Op: "const", S: SFP, F: f} }
func Var(name string, s Sort, w int) *Term {
	return &Term{Op: "var", S: s, W: w, Name: name}
}

var TrueT = BoolConst(true)
var FalseT = BoolConst(false)

// Key is the SMT-LIB rendering; used for structural equality and printing.
func (t *Term) Key() string {
	if t.key != "" {
		return t.key
	}
	var sb strings.Builder
	t.write(&sb)
	t.key = sb.String()
	return t.key
}

func (t *Term) String() string { return t.Key() }

func (t *Term) write(sb *strings.Builder) {
	if t.key != "" {
		sb.WriteString(t.key)
		return
	}
	switch t.Op {
	case "var":
		sb.WriteString(t.Name)
	case "const":
		switch t.S {
		case SBool:
			if t.B {
				sb.WriteString("true")
			} else {
				sb.WriteString("false")
			}
		case SBV:
			fmt.Fprintf(sb, "(_ bv%d %d)", t.BV, t.W)
		case SFP:
			bits := math.Float64bits(t.F)
			fmt.Fprintf(sb, "(fp #b%01b #b%011b #b%052b)", bits>>63, (bits>>52)&0x7ff, bits&((1<<52)-1))
		}
	case "extract":
		fmt.Fprintf(sb, "((_ extract %d %d) ", t.X, t.Y)
		t.Args[0].write(sb)
		sb.WriteString(")")
	case "zero_extend", "sign_extend":
		fmt.Fprintf(sb, "((_ %s %d) ", t.Op, t.X)
		t.Args[0].write(sb)
		sb.WriteString(")")
	case "to_fp_s": // signed bv -> fp
		sb.WriteString("((_ to_fp 11 53) RNE ")
		t.Args[0].write(sb)
		sb.WriteString(")")
	case "to_fp_u":
		sb.WriteString("((_ to_fp_unsigned 11 53) RNE ")
		t.Args[0].write(sb)
		sb.WriteString(")")
	case "fp.to_sbv":
		fmt.Fprintf(sb, "((_ fp.to_sbv %d) RTZ ", t.W)
		t.Args[0].write(sb)
		sb.WriteString(")")
	case "fp.to_ubv":
		fmt.Fprintf(sb, "((_ fp.to_ubv %d) RTZ ", t.W)
		t.Args[0].write(sb)
		sb.WriteString(")")
	case "fp.add", "fp.sub", "fp.mul", "fp.div":
		sb.WriteString("(" + t.Op + " RNE")
		for _, a := range t.Args {
			sb.WriteString(" ")
			a.write(sb)
		}
		sb.WriteString(")")
	case "fp.rti": // round to integral toward zero
		sb.WriteString("(fp.roundToIntegral RTZ ")
		t.Args[0].write(sb)
		sb.WriteString(")")
	default:
		sb.WriteString("(" + t.Op)
		for _, a := range t.Args {
			sb.WriteString(" ")
			a.write(sb)
		}
		sb.WriteString(")")
	}
}

func (t *Term) Vars(into map[string]*Term) {
	if t.Op == "var" {
		into[t.Name] = t
		return
	}
	for _, a := range t.Args {
		a.Vars(into)
	}
}

func SortDecl(t *Term) string {
	switch t.S {
	case SBool:
		return "Bool"
	case SBV:
		return fmt.Sprintf("(_ BitVec %d)", t.W)
	case SFP:
		return "(_ FloatingPoint 11 53)"
	}
	return "?"
}

func termEq(a, b *Term) bool {
	if a == b {
		return true
	}
	if a.Op != b.Op || a.S != b.S || a.W != b.W || len(a.Args) != len(b.Args) {
		return false
	}
	return a.Key() == b.Key()
}

// ---- boolean constructors ----

func Not(a *Term) *Term {
	if a.IsConst() {
		return BoolConst(!a.B)
	}
	if a.Op == "not" {
		return a.Args[0]
	}
	return &Term{Op: "not", S: SBool, Args: []*Term{a}}
}

func And(a, b *Term) *Term {
	if a.IsConst() {
		if a.B {
			return b
		}
		return FalseT
	}
	if b.IsConst() {
		if b.B {
			return a
		}
		return FalseT
	}
	if termEq(a, b) {
		return a
	}
	return &Term{Op: "and", S: SBool, Args: []*Term{a, b}}
}

func Or(a, b *Term) *Term {
	if a.IsConst() {
		if a.B {
			return TrueT
		}
		return b
	}
	if b.IsConst() {
		if b.B {
			return TrueT
		}
		return a
	}
	if termEq(a, b) {
		return a
	}
	return &Term{Op: "or", S: SBool, Args: []*Term{a, b}}
}

func Ite(c, a, b *Term) *Term {
	if c.IsConst() {
		if c.B {
			return a
		}
		return b
	}
	if termEq(a, b) {
		return a
	}
	if a.S == SBool && a.IsConst() && b.IsConst() {
		if a.B && !b.B {
			return c
		}
		if !a.B && b.B {
			return Not(c)
		}
	}
	return &Term{Op: "ite", S: a.S, W: a.W, Args: []*Term{c, a, b}}
}

func Eq(a, b *Term) *Term {
	if a.IsConst() && b.IsConst() {
		switch a.S {
		case SBool:
			return BoolConst(a.B == b.B)
		case SBV:
			return BoolConst(a.BV == b.BV)
		case SFP:
			// SMT "=" on FP is structural identity (NaN = NaN, +0 != -0)
			return BoolConst(math.Float64bits(a.F) == math.Float64bits(b.F) || (a.F != a.F && b.F != b.F))
		}
	}
	if termEq(a, b) {
		return TrueT
	}
	if a.S == SBool {
		if a.IsConst() {
			if a.B {
				return b
			}
			return Not(b)
		}
		if b.IsConst() {
			if b.B {
				return a
			}
			return Not(a)
		}
	}
	return &Term{Op: "=", S: SBool, Args: []*Term{a, b}}
}

// ---- bit-vector constructors ----

func sext(v uint64, w int) int64 {
	if w >= 64 {
		return int64(v)
	}
	sh := uint(64 - w)
	return int64(v<<sh) >> sh
}

func BVBin(op string, a, b *Term) *Term {
	w := a.W
	if a.IsConst() && b.IsConst() {
		x, y := a.BV, b.BV
		var r uint64
		ok := true
		switch op {
		case "bvadd":
			r = x + y
		case "bvsub":
			r = x - y
		case "bvmul":
			r = x * y
		case "bvand":
			r = x & y
		case "bvor":
			r = x | y
		case "bvxor":
			r = x ^ y
		case "bvudiv":
			if y == 0 {
				r = mask(w)
			} else {
				r = x / y
			}
		case "bvurem":
			if y == 0 {
				r = x
			} else {
				r = x % y
			}
		case "bvsdiv":
			if y == 0 {
				ok = false
			} else {
				sx, sy := sext(x, w), sext(y, w)
				if sy == -1 {
					r = uint64(-sx)
				} else {
					r = uint64(sx / sy)
				}
			}
		case "bvsrem":
			if y == 0 {
				ok = false
			} else {
				sx, sy := sext(x, w), sext(y, w)
				if sy == -1 {
					r = 0
				} else {
					r = uint64(sx % sy)
				}
			}
		case "bvshl":
			if y >= uint64(w) {
				r = 0
			} else {
				r = x << y
			}
		case "bvlshr":
			if y >= uint64(w) {
				r = 0
			} else {
				r = x >> y
			}
		case "bvashr":
			sx := sext(x, w)
			if y >= uint64(w) {
				if sx < 0 {
					r = ^uint64(0)
				} else {
					r = 0
				}
			} else {
				r = uint64(sx >> y)
			}
		default:
			ok = false
		}
		if ok {
			return BVConst(r, w)
		}
	}
	// light identities
	switch op {
	case "bvadd", "bvor", "bvxor":
		if a.IsConst() && a.BV == 0 {
			return b
		}
		if b.IsConst() && b.BV == 0 {
			return a
		}
	case "bvsub", "bvshl", "bvlshr", "bvashr":
		if b.IsConst() && b.BV == 0 {
			return a
		}
	case "bvmul":
		if a.IsConst() && a.BV == 1 {
			return b
		}
		if b.IsConst() && b.BV == 1 {
			return a
		}
	}
	return &Term{Op: op, S: SBV, W: w, Args: []*Term{a, b}}
}

func BVCmp(op string, a, b *Term) *Term {
	if a.IsConst() && b.IsConst() {
		x, y := a.BV, b.BV
		sx, sy := sext(x, a.W), sext(y, a.W)
		switch op {
		case "bvult":
			return BoolConst(x < y)
		case "bvule":
			return BoolConst(x <= y)
		case "bvugt":
			return BoolConst(x > y)
		case "bvuge":
			return BoolConst(x >= y)
		case "bvslt":
			return BoolConst(sx < sy)
		case "bvsle":
			return BoolConst(sx <= sy)
		case "bvsgt":
			return BoolConst(sx > sy)
		case "bvsge":
			return BoolConst(sx >= sy)
		}
	}
	return &Term{Op: op, S: SBool, Args: []*Term{a, b}}
}

func BVNot(a *Term) *Term {
	if a.IsConst() {
		return BVConst(^a.BV, a.W)
	}
	return &Term{Op: "bvnot", S: SBV, W: a.W, Args: []*Term{a}}
}

func BVNeg(a *Term) *Term {
	if a.IsConst() {
		return BVConst(-a.BV, a.W)
	}
	return &Term{Op: "bvneg", S: SBV, W: a.W, Args: []*Term{a}}
}

func Extract(a *Term, hi, lo int) *Term {
	if a.IsConst() {
		return BVConst(a.BV>>uint(lo), hi-lo+1)
	}
	if lo == 0 && hi == a.W-1 {
		return a
	}
	// extract of an extension of something of exactly that width
	if (a.Op == "zero_extend" || a.Op == "sign_extend") && lo == 0 && hi == a.Args[0].W-1 {
		return a.Args[0]
	}
	return &Term{Op: "extract", S: SBV, W: hi - lo + 1, Args: []*Term{a}, X: hi, Y: lo}
}

func ZeroExt(a *Term, to int) *Term {
	if to == a.W {
		return a
	}
	if a.IsConst() {
		return BVConst(a.BV, to)
	}
	return &Term{Op: "zero_extend", S: SBV, W: to, Args: []*Term{a}, X: to - a.W}
}

func SignExt(a *Term, to int) *Term {
	if to == a.W {
		return a
	}
	if a.IsConst() {
		return BVConst(uint64(sext(a.BV, a.W)), to)
	}
	return &Term{Op: "sign_extend", S: SBV, W: to, Args: []*Term{a}, X: to - a.W}
}

// ---- floating point ----

func FPBin(op string, a, b *Term) *Term {
	if a.IsConst() && b.IsConst() {
		switch op {
		case "fp.add":
			return FPConst(a.F + b.F)
		case "fp.sub":
			return FPConst(a.F - b.F)
		case "fp.mul":
			return FPConst(a.F * b.F)
		case "fp.div":
			return FPConst(a.F / b.F)
		}
	}
	return &Term{Op: op, S: SFP, Args: []*Term{a, b}}
}

func neverNaN(t *Term) bool {
	switch t.Op {
	case "to_fp_s", "to_fp_u":
		return true
	case "const":
		return t.F == t.F
	}
	return false
}

func FPCmp(op string, a, b *Term) *Term {
	if termEq(a, b) && neverNaN(a) {
		switch op {
		case "fp.eq", "fp.leq", "fp.geq":
			return TrueT
		case "fp.lt", "fp.gt":
			return FalseT
		}
	}
	if a.IsConst() && b.IsConst() {
		switch op {
		case "fp.lt":
			return BoolConst(a.F < b.F)
		case "fp.leq":
			return BoolConst(a.F <= b.F)
		case "fp.gt":
			return BoolConst(a.F > b.F)
		case "fp.geq":
			return BoolConst(a.F >= b.F)
		case "fp.eq":
			return BoolConst(a.F == b.F)
		}
	}
	return &Term{Op: op, S: SBool, Args: []*Term{a, b}}
}

func FPNeg(a *Term) *Term {
	if a.IsConst() {
		return FPConst(-a.F)
	}
	return &Term{Op: "fp.neg", S: SFP, Args: []*Term{a}}
}

func FPPred(op string, a *Term) *Term { // fp.isNaN, fp.isInfinite
	if a.Op == "to_fp_s" || a.Op == "to_fp_u" {
		return FalseT // 64-bit integers convert to finite doubles
	}
	if a.IsConst() {
		switch op {
		case "fp.isNaN":
			return BoolConst(a.F != a.F)
		case "fp.isInfinite":
			return BoolConst(math.IsInf(a.F, 0))
		}
	}
	return &Term{Op: op, S: SBool, Args: []*Term{a}}
}

func IntToFP(a *Term, signed bool) *Term {
	if a.IsConst() {
		if signed {
			return FPConst(float64(sext(a.BV, a.W)))
		}
		return FPConst(float64(a.BV))
	}
	if signed {
		return &Term{Op: "to_fp_s", S: SFP, Args: []*Term{a}}
	}
	return &Term{Op: "to_fp_u", S: SFP, Args: []*Term{a}}
}

// UF application (used for math.Pow with symbolic exponent etc.)
func UF(name string, s Sort, w int, args ...*Term) *Term {
	return &Term{Op: name, S: s, W: w, Args: args}
}
