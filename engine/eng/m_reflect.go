package eng

// Model of package reflect, backed by go/types.

import (
	"fmt"
	"go/token"
	"go/types"
	"reflect"
	"sort"

	"golang.org/x/tools/go/ssa"
)

type RType struct{ T types.Type }

func (t *RType) String() string { return "rtype(" + t.T.String() + ")" }

type RV struct {
	T    types.Type
	V    Value
	Addr *Value
}

func (v RV) String() string {
	if v.T == nil {
		return "reflect.Value(invalid)"
	}
	return "reflect.Value(" + v.T.String() + ":" + showVal(v.val()) + ")"
}

func (v RV) val() Value {
	if v.Addr != nil {
		return load(v.Addr)
	}
	return v.V
}

func (g *G) rtype(t types.Type) Value {
	if t == nil {
		return Iface{}
	}
	return Iface{T: types.NewPointer(g.run.P.NamedType("reflect", "rtype")), V: &RType{T: t}}
}

func asRType(g *G, v Value) *RType {
	switch v := v.(type) {
	case *RType:
		return v
	case Iface:
		if v.T == nil {
			g.goPanic("runtime error: invalid memory address or nil pointer dereference (nil reflect.Type)")
		}
		return v.V.(*RType)
	}
	panic(fmt.Sprintf("asRType %T", v))
}

func asRV(v Value) RV {
	switch v := v.(type) {
	case RV:
		return v
	case *Value: // pointer receiver wrapper
		return (*v).(RV)
	}
	panic(fmt.Sprintf("asRV %T", v))
}

// mkStruct builds a value of a named struct type from a field map.
func (g *G) mkStruct(t types.Type, fields map[string]Value) Struct {
	st := under(t).(*types.Struct)
	s := zero(t).(Struct)
	for i := 0; i < st.NumFields(); i++ {
		if v, ok := fields[st.Field(i).Name()]; ok {
			s[i] = v
		}
	}
	return s
}

func fieldByName(t types.Type, s Struct, name string) Value {
	st := under(t).(*types.Struct)
	for i := 0; i < st.NumFields(); i++ {
		if st.Field(i).Name() == name {
			return s[i]
		}
	}
	panic("no field " + name)
}

func kindOf(t types.Type) reflect.Kind {
	switch u := under(t).(type) {
	case *types.Basic:
		switch u.Kind() {
		case types.Bool:
			return reflect.Bool
		case types.Int:
			return reflect.Int
		case types.Int8:
			return reflect.Int8
		case types.Int16:
			return reflect.Int16
		case types.Int32:
			return reflect.Int32
		case types.Int64:
			return reflect.Int64
		case types.Uint:
			return reflect.Uint
		case types.Uint8:
			return reflect.Uint8
		case types.Uint16:
			return reflect.Uint16
		case types.Uint32:
			return reflect.Uint32
		case types.Uint64:
			return reflect.Uint64
		case types.Uintptr:
			return reflect.Uintptr
		case types.Float32:
			return reflect.Float32
		case types.Float64:
			return reflect.Float64
		case types.String:
			return reflect.String
		case types.UnsafePointer:
			return reflect.UnsafePointer
		}
	case *types.Pointer:
		return reflect.Ptr
	case *types.Struct:
		return reflect.Struct
	case *types.Array:
		return reflect.Array
	case *types.Slice:
		return reflect.Slice
	case *types.Map:
		return reflect.Map
	case *types.Chan:
		return reflect.Chan
	case *types.Signature:
		return reflect.Func
	case *types.Interface:
		return reflect.Interface
	}
	return reflect.Invalid
}

func isIfaceType(t types.Type) bool {
	_, ok := under(t).(*types.Interface)
	return ok
}

// toDeclared adapts a reflect.Value's payload to a slot of declared type dt.
func toDeclared(rv RV, dt types.Type) Value {
	v := rv.val()
	if isIfaceType(dt) && !isIfaceType(rv.T) {
		return Iface{T: rv.T, V: v}
	}
	return v
}

func fromDeclared(v Value, dt types.Type) RV { return RV{T: dt, V: v} }

// exported methods of t in reflect order
func (p *Program) methods(t types.Type) []*types.Selection {
	ms := p.Prog.MethodSets.MethodSet(t)
	var out []*types.Selection
	for i := 0; i < ms.Len(); i++ {
		if ms.At(i).Obj().Exported() {
			out = append(out, ms.At(i))
		}
	}
	sort.Slice(out, func(i, j int) bool { return out[i].Obj().Name() < out[j].Obj().Name() })
	return out
}

func typeString(t types.Type) string {
	return types.TypeString(t, func(p *types.Package) string { return p.Name() })
}

func sigWithRecv(sel *types.Selection) *types.Signature {
	sig := sel.Type().(*types.Signature)
	vars := []*types.Var{types.NewParam(token.NoPos, nil, "", sel.Recv())}
	for i := 0; i < sig.Params().Len(); i++ {
		vars = append(vars, sig.Params().At(i))
	}
	return types.NewSignatureType(nil, nil, nil, types.NewTuple(vars...), sig.Results(), sig.Variadic())
}

func (g *G) callMakeFunc(cl *Closure, args []Value, caller *Frame, pos token.Pos) Value {
	sig := cl.MFType
	in := make(Slice, len(args))
	for i, a := range args {
		in[i] = fromDeclared(a, sig.Params().At(i).Type())
	}
	res := g.callFn(cl.MF, []Value{in}, caller, pos)
	outs, _ := res.(Slice)
	n := sig.Results().Len()
	if len(outs) != n {
		g.goPanicPlain(fmt.Sprintf("reflect: wrong return count from function created by MakeFunc: %d != %d", len(outs), n))
	}
	vals := make([]Value, n)
	for i := 0; i < n; i++ {
		rv := outs[i].(RV)
		if rv.T == nil {
			g.goPanicPlain("reflect: function created by MakeFunc using closure returned zero Value")
		}
		dt := sig.Results().At(i).Type()
		if !types.AssignableTo(rv.T, dt) {
			g.goPanicPlain("reflect: function created by MakeFunc using closure returned wrong type: have " + typeString(rv.T) + " for " + typeString(dt))
		}
		vals[i] = toDeclared(rv, dt)
	}
	switch n {
	case 0:
		return nil
	case 1:
		return vals[0]
	}
	return Tuple(vals)
}

func (g *G) reflectCall(fv RV, args Slice) Value {
	cl, _ := fv.val().(*Closure)
	sig, ok := under(fv.T).(*types.Signature)
	if !ok {
		g.goPanicPlain("reflect: call of non-function")
	}
	if cl == nil {
		g.goPanicPlain("reflect: call of nil function")
	}
	if len(args) != sig.Params().Len() {
		g.goPanicPlain("reflect: Call with too few/many input arguments")
	}
	in := make([]Value, len(args))
	for i, a := range args {
		rv := a.(RV)
		if rv.T == nil {
			g.goPanicPlain("reflect: Call using zero Value argument")
		}
		dt := sig.Params().At(i).Type()
		if !types.AssignableTo(rv.T, dt) {
			g.goPanicPlain("reflect: Call using " + typeString(rv.T) + " as type " + typeString(dt))
		}
		in[i] = copyVal(toDeclared(rv, dt))
	}
	res := g.callFn(cl, in, g.top, token.NoPos)
	n := sig.Results().Len()
	out := make(Slice, n)
	switch n {
	case 0:
	case 1:
		out[0] = fromDeclared(res, sig.Results().At(0).Type())
	default:
		for i, v := range res.(Tuple) {
			out[i] = fromDeclared(v, sig.Results().At(i).Type())
		}
	}
	return out
}

func (g *G) rvIsZero(v RV) Bool {
	return g.isZeroVal(v.val(), v.T)
}

func (g *G) isZeroVal(x Value, t types.Type) Bool {
	switch a := x.(type) {
	case Int:
		if a.T != nil {
			return mkBool(Eq(a.T, BVConst(0, a.T.W)))
		}
		return Bool{C: a.C == 0}
	case Bool:
		return notB(a)
	case F64:
		if a.T != nil {
			// IsZero on floats: bits == 0 (so -0 is not zero); approximated by == +0 && !neg
			return mkBool(Eq(a.T, FPConst(0)))
		}
		return Bool{C: f64bits(a.C) == 0}
	case Str:
		n, ok := a.Len()
		if !ok {
			g.inconclusive("IsZero of opaque string")
		}
		return Bool{C: n == 0}
	case *Value:
		return Bool{C: a == nil}
	case Slice:
		return Bool{C: a == nil}
	case *Blob:
		return Bool{C: a == nil}
	case *MapV:
		return Bool{C: a == nil}
	case *Chan:
		return Bool{C: a == nil}
	case *Closure:
		return Bool{C: a == nil}
	case Iface:
		return Bool{C: a.T == nil}
	case Struct:
		st := under(t).(*types.Struct)
		c := TrueT
		for i := range a {
			c = And(c, g.isZeroVal(a[i], st.Field(i).Type()).Term())
		}
		return mkBool(c)
	case Array:
		at := under(t).(*types.Array)
		c := TrueT
		for i := range a {
			c = And(c, g.isZeroVal(a[i], at.Elem()).Term())
		}
		return mkBool(c)
	case RV:
		return Bool{C: a.T == nil}
	case nil:
		return Bool{C: true}
	}
	g.inconclusive(fmt.Sprintf("IsZero of %T", x))
	return Bool{}
}

func init() {
	reg := func(name string, f Intrinsic) { baseIntrinsics[name] = f }
	I := func(v int) Value { return Int{C: uint64(int64(v))} }

	reg("reflect.TypeOf", func(g *G, fr *Frame, fn *ssa.Function, a []Value) Value {
		return g.rtype(a[0].(Iface).T)
	})
	reg("reflect.ValueOf", func(g *G, fr *Frame, fn *ssa.Function, a []Value) Value {
		x := a[0].(Iface)
		if x.T == nil {
			return RV{}
		}
		return RV{T: x.T, V: x.V}
	})
	reg("reflect.New", func(g *G, fr *Frame, fn *ssa.Function, a []Value) Value {
		t := asRType(g, a[0]).T
		p := new(Value)
		*p = zero(t)
		return RV{T: types.NewPointer(t), V: p}
	})
	reg("reflect.Zero", func(g *G, fr *Frame, fn *ssa.Function, a []Value) Value {
		t := asRType(g, a[0]).T
		return RV{T: t, V: zero(t)}
	})
	reg("reflect.PtrTo", func(g *G, fr *Frame, fn *ssa.Function, a []Value) Value {
		return g.rtype(types.NewPointer(asRType(g, a[0]).T))
	})
	baseIntrinsics["reflect.PointerTo"] = baseIntrinsics["reflect.PtrTo"]
	reg("reflect.MakeFunc", func(g *G, fr *Frame, fn *ssa.Function, a []Value) Value {
		t := asRType(g, a[0]).T
		sig, ok := under(t).(*types.Signature)
		if !ok {
			g.goPanicPlain("reflect: call of MakeFunc with non-Func type")
		}
		return RV{T: t, V: &Closure{MF: a[1].(*Closure), MFType: sig, Name: "MakeFunc:" + typeString(t)}}
	})
	reg("reflect.ChanOf", func(g *G, fr *Frame, fn *ssa.Function, a []Value) Value {
		dir := a[0].(Int).C
		d := types.SendRecv
		switch reflect.ChanDir(dir) {
		case reflect.RecvDir:
			d = types.RecvOnly
		case reflect.SendDir:
			d = types.SendOnly
		}
		return g.rtype(types.NewChan(d, asRType(g, a[1]).T))
	})
	reg("reflect.MakeChan", func(g *G, fr *Frame, fn *ssa.Function, a []Value) Value {
		t := asRType(g, a[0]).T
		ct, ok := under(t).(*types.Chan)
		if !ok {
			g.goPanicPlain("reflect.MakeChan of non-chan type")
		}
		return RV{T: t, V: g.run.newChan(int(a[1].(Int).C), ct.Elem())}
	})
	reg("reflect.Select", func(g *G, fr *Frame, fn *ssa.Function, a []Value) Value {
		cs := a[0].(Slice)
		sct := g.run.P.NamedType("reflect", "SelectCase")
		cases := make([]*selCase, len(cs))
		hasDef := false
		defIdx := -1
		var elemTs []types.Type
		for i, c := range cs {
			s := c.(Struct)
			dir := reflect.SelectDir(fieldByName(sct, s, "Dir").(Int).C)
			chv := fieldByName(sct, s, "Chan").(RV)
			sc := &selCase{}
			var et types.Type
			if chv.T != nil {
				sc.ch, _ = chv.val().(*Chan)
				et = under(chv.T).(*types.Chan).Elem()
			}
			switch dir {
			case reflect.SelectSend:
				sc.isSend = true
				sv := fieldByName(sct, s, "Send").(RV)
				sc.sendV = copyVal(toDeclared(sv, et))
			case reflect.SelectDefault:
				hasDef = true
				defIdx = i
				sc.ch = nil
			}
			cases[i] = sc
			elemTs = append(elemTs, et)
		}
		idx, v, ok := g.selectCases(cases, hasDef)
		if idx == -1 {
			return Tuple{I(defIdx), RV{}, Bool{}}
		}
		if cases[idx].isSend {
			return Tuple{I(idx), RV{}, Bool{}}
		}
		rv := RV{T: elemTs[idx], V: v}
		if !ok {
			rv = RV{T: elemTs[idx], V: zero(elemTs[idx])}
		}
		return Tuple{I(idx), rv, Bool{C: ok}}
	})

	// ---- Type methods ----
	T := func(name string, f func(g *G, t types.Type, a []Value) Value) {
		reg("(*reflect.rtype)."+name, func(g *G, fr *Frame, fn *ssa.Function, a []Value) Value {
			return f(g, asRType(g, a[0]).T, a[1:])
		})
	}
	T("Kind", func(g *G, t types.Type, a []Value) Value { return I(int(kindOf(t))) })
	T("String", func(g *G, t types.Type, a []Value) Value { return S(typeString(t)) })
	T("Name", func(g *G, t types.Type, a []Value) Value {
		if n, ok := types.Unalias(t).(*types.Named); ok {
			return S(n.Obj().Name())
		}
		if b, ok := t.(*types.Basic); ok {
			return S(b.Name())
		}
		return S("")
	})
	T("Elem", func(g *G, t types.Type, a []Value) Value {
		switch u := under(t).(type) {
		case *types.Pointer:
			return g.rtype(u.Elem())
		case *types.Slice:
			return g.rtype(u.Elem())
		case *types.Array:
			return g.rtype(u.Elem())
		case *types.Chan:
			return g.rtype(u.Elem())
		case *types.Map:
			return g.rtype(u.Elem())
		}
		g.goPanicPlain("reflect: Elem of invalid type " + typeString(t))
		return nil
	})
	T("NumField", func(g *G, t types.Type, a []Value) Value {
		st, ok := under(t).(*types.Struct)
		if !ok {
			g.goPanicPlain("reflect: NumField of non-struct type " + typeString(t))
		}
		return I(st.NumFields())
	})
	T("Field", func(g *G, t types.Type, a []Value) Value {
		st, ok := under(t).(*types.Struct)
		if !ok {
			g.goPanicPlain("reflect: Field of non-struct type " + typeString(t))
		}
		i := int(a[0].(Int).C)
		if i < 0 || i >= st.NumFields() {
			g.goPanicPlain("reflect: Field index out of bounds")
		}
		f := st.Field(i)
		pk := ""
		if !f.Exported() && f.Pkg() != nil {
			pk = f.Pkg().Path()
		}
		return g.mkStruct(g.run.P.NamedType("reflect", "StructField"), map[string]Value{
			"Name": S(f.Name()), "PkgPath": S(pk), "Type": g.rtype(f.Type()), "Tag": S(st.Tag(i)),
			"Index": Slice{I(i)}, "Anonymous": Bool{C: f.Embedded()},
		})
	})
	T("NumIn", func(g *G, t types.Type, a []Value) Value {
		sig, ok := under(t).(*types.Signature)
		if !ok {
			g.goPanicPlain("reflect: NumIn of non-func type " + typeString(t))
		}
		return I(sig.Params().Len())
	})
	T("In", func(g *G, t types.Type, a []Value) Value {
		sig, ok := under(t).(*types.Signature)
		if !ok {
			g.goPanicPlain("reflect: In of non-func type " + typeString(t))
		}
		i := int(int64(a[0].(Int).C))
		if i < 0 || i >= sig.Params().Len() {
			g.goPanic(fmt.Sprintf("runtime error: index out of range [%d] with length %d", i, sig.Params().Len()))
		}
		return g.rtype(sig.Params().At(i).Type())
	})
	T("NumOut", func(g *G, t types.Type, a []Value) Value {
		sig, ok := under(t).(*types.Signature)
		if !ok {
			g.goPanicPlain("reflect: NumOut of non-func type " + typeString(t))
		}
		return I(sig.Results().Len())
	})
	T("Out", func(g *G, t types.Type, a []Value) Value {
		sig, ok := under(t).(*types.Signature)
		if !ok {
			g.goPanicPlain("reflect: Out of non-func type " + typeString(t))
		}
		i := int(int64(a[0].(Int).C))
		if i < 0 || i >= sig.Results().Len() {
			g.goPanic(fmt.Sprintf("runtime error: index out of range [%d] with length %d", i, sig.Results().Len()))
		}
		return g.rtype(sig.Results().At(i).Type())
	})
	T("NumMethod", func(g *G, t types.Type, a []Value) Value {
		if it, ok := under(t).(*types.Interface); ok {
			return I(it.NumMethods())
		}
		return I(len(g.run.P.methods(t)))
	})
	T("Method", func(g *G, t types.Type, a []Value) Value {
		ms := g.run.P.methods(t)
		i := int(a[0].(Int).C)
		if i < 0 || i >= len(ms) {
			g.goPanicPlain("reflect: Method index out of range")
		}
		sel := ms[i]
		fnv := g.run.P.Prog.MethodValue(sel)
		sig := sigWithRecv(sel)
		return g.mkStruct(g.run.P.NamedType("reflect", "Method"), map[string]Value{
			"Name": S(sel.Obj().Name()), "Type": g.rtype(sig), "Func": RV{T: sig, V: &Closure{Fn: fnv}}, "Index": I(i),
		})
	})
	T("Implements", func(g *G, t types.Type, a []Value) Value {
		u := asRType(g, a[0]).T
		it, ok := under(u).(*types.Interface)
		if !ok {
			g.goPanicPlain("reflect: non-interface type passed to Type.Implements")
		}
		return Bool{C: types.Implements(t, it)}
	})
	T("AssignableTo", func(g *G, t types.Type, a []Value) Value {
		return Bool{C: types.AssignableTo(t, asRType(g, a[0]).T)}
	})
	T("ConvertibleTo", func(g *G, t types.Type, a []Value) Value {
		return Bool{C: types.ConvertibleTo(t, asRType(g, a[0]).T)}
	})
	T("Comparable", func(g *G, t types.Type, a []Value) Value { return Bool{C: types.Comparable(t)} })
	T("PkgPath", func(g *G, t types.Type, a []Value) Value {
		if n, ok := types.Unalias(t).(*types.Named); ok && n.Obj().Pkg() != nil {
			return S(n.Obj().Pkg().Path())
		}
		return S("")
	})

	// ---- Value methods ----
	V := func(name string, f func(g *G, v RV, a []Value) Value) {
		reg("(reflect.Value)."+name, func(g *G, fr *Frame, fn *ssa.Function, a []Value) Value {
			return f(g, asRV(a[0]), a[1:])
		})
	}
	mustValid := func(g *G, v RV, m string) {
		if v.T == nil {
			g.goPanicPlain("reflect: call of reflect.Value." + m + " on zero Value")
		}
	}
	V("Kind", func(g *G, v RV, a []Value) Value {
		if v.T == nil {
			return I(0)
		}
		return I(int(kindOf(v.T)))
	})
	V("IsValid", func(g *G, v RV, a []Value) Value { return Bool{C: v.T != nil} })
	V("Type", func(g *G, v RV, a []Value) Value {
		mustValid(g, v, "Type")
		return g.rtype(v.T)
	})
	V("Interface", func(g *G, v RV, a []Value) Value {
		mustValid(g, v, "Interface")
		x := v.val()
		if isIfaceType(v.T) {
			return x
		}
		return Iface{T: v.T, V: copyVal(x)}
	})
	V("CanInterface", func(g *G, v RV, a []Value) Value { return Bool{C: v.T != nil} })
	V("CanSet", func(g *G, v RV, a []Value) Value { return Bool{C: v.Addr != nil} })
	V("CanAddr", func(g *G, v RV, a []Value) Value { return Bool{C: v.Addr != nil} })
	V("Addr", func(g *G, v RV, a []Value) Value {
		if v.Addr == nil {
			g.goPanicPlain("reflect.Value.Addr of unaddressable value")
		}
		return RV{T: types.NewPointer(v.T), V: v.Addr}
	})
	V("Elem", func(g *G, v RV, a []Value) Value {
		mustValid(g, v, "Elem")
		switch u := under(v.T).(type) {
		case *types.Pointer:
			p, _ := v.val().(*Value)
			if p == nil {
				return RV{}
			}
			return RV{T: u.Elem(), Addr: p}
		case *types.Interface:
			x := v.val().(Iface)
			if x.T == nil {
				return RV{}
			}
			return RV{T: x.T, V: x.V}
		}
		g.goPanicPlain("reflect: call of reflect.Value.Elem on " + kindOf(v.T).String() + " Value")
		return nil
	})
	V("NumField", func(g *G, v RV, a []Value) Value {
		mustValid(g, v, "NumField")
		st, ok := under(v.T).(*types.Struct)
		if !ok {
			g.goPanicPlain("reflect: call of reflect.Value.NumField on " + kindOf(v.T).String() + " Value")
		}
		return I(st.NumFields())
	})
	V("Field", func(g *G, v RV, a []Value) Value {
		mustValid(g, v, "Field")
		st, ok := under(v.T).(*types.Struct)
		if !ok {
			g.goPanicPlain("reflect: call of reflect.Value.Field on " + kindOf(v.T).String() + " Value")
		}
		i := int(a[0].(Int).C)
		if i < 0 || i >= st.NumFields() {
			g.goPanicPlain("reflect: Field index out of range")
		}
		if v.Addr != nil {
			s := (*v.Addr).(Struct)
			return RV{T: st.Field(i).Type(), Addr: &s[i]}
		}
		return RV{T: st.Field(i).Type(), V: v.V.(Struct)[i]}
	})
	V("Set", func(g *G, v RV, a []Value) Value {
		x := a[0].(RV)
		if v.Addr == nil {
			g.goPanicPlain("reflect: reflect.Value.Set using unaddressable value")
		}
		if x.T == nil {
			g.goPanicPlain("reflect: call of reflect.Value.Set on zero Value")
		}
		if !types.AssignableTo(x.T, v.T) {
			g.goPanicPlain("reflect.Set: value of type " + typeString(x.T) + " is not assignable to type " + typeString(v.T))
		}
		store(v.Addr, toDeclared(x, v.T))
		return nil
	})
	V("Call", func(g *G, v RV, a []Value) Value {
		mustValid(g, v, "Call")
		args, _ := a[0].(Slice)
		return g.reflectCall(v, args)
	})
	V("IsZero", func(g *G, v RV, a []Value) Value {
		mustValid(g, v, "IsZero")
		return g.rvIsZero(v)
	})
	V("IsNil", func(g *G, v RV, a []Value) Value {
		mustValid(g, v, "IsNil")
		switch x := v.val().(type) {
		case *Value:
			return Bool{C: x == nil}
		case Slice:
			return Bool{C: x == nil}
		case *Blob:
			return Bool{C: x == nil}
		case *MapV:
			return Bool{C: x == nil}
		case *Chan:
			return Bool{C: x == nil}
		case *Closure:
			return Bool{C: x == nil}
		case Iface:
			return Bool{C: x.T == nil}
		}
		g.goPanicPlain("reflect: call of reflect.Value.IsNil on " + kindOf(v.T).String() + " Value")
		return nil
	})
	V("NumMethod", func(g *G, v RV, a []Value) Value {
		mustValid(g, v, "NumMethod")
		if it, ok := under(v.T).(*types.Interface); ok {
			return I(it.NumMethods())
		}
		return I(len(g.run.P.methods(v.T)))
	})
	V("MethodByName", func(g *G, v RV, a []Value) Value {
		mustValid(g, v, "MethodByName")
		name := a[0].(Str)
		if !name.IsConc() {
			g.inconclusive("MethodByName with symbolic name")
		}
		for _, sel := range g.run.P.methods(v.T) {
			if sel.Obj().Name() == name.C {
				fnv := g.run.P.Prog.MethodValue(sel)
				recv := v.val()
				bound := &Closure{Name: "bound:" + fnv.String(), Native: func(g *G, args []Value) Value {
					return g.callFn(&Closure{Fn: fnv}, append([]Value{recv}, args...), g.top, token.NoPos)
				}}
				return RV{T: sel.Type(), V: bound}
			}
		}
		return RV{}
	})
	V("Convert", func(g *G, v RV, a []Value) Value {
		mustValid(g, v, "Convert")
		t := asRType(g, a[0]).T
		if !types.ConvertibleTo(v.T, t) {
			g.goPanicPlain("reflect.Value.Convert: value of type " + typeString(v.T) + " cannot be converted to type " + typeString(t))
		}
		x := v.val()
		if _, isChan := under(t).(*types.Chan); !isChan {
			x = g.conv(t, v.T, x)
		}
		return RV{T: t, V: x}
	})
	V("Close", func(g *G, v RV, a []Value) Value {
		mustValid(g, v, "Close")
		ch, ok := v.val().(*Chan)
		if !ok {
			g.goPanicPlain("reflect: call of reflect.Value.Close on " + kindOf(v.T).String() + " Value")
		}
		g.chanClose(ch)
		return nil
	})
	V("Len", func(g *G, v RV, a []Value) Value {
		mustValid(g, v, "Len")
		return g.lenOf(v.val())
	})
	V("Int", func(g *G, v RV, a []Value) Value {
		w, _, ok := intWidth(v.T)
		if !ok {
			g.goPanicPlain("reflect: call of reflect.Value.Int on " + kindOf(v.T).String() + " Value")
		}
		return mkInt(SignExt(v.val().(Int).Term(w), 64))
	})
	V("Uint", func(g *G, v RV, a []Value) Value {
		w, _, ok := intWidth(v.T)
		if !ok {
			g.goPanicPlain("reflect: call of reflect.Value.Uint on " + kindOf(v.T).String() + " Value")
		}
		return mkInt(ZeroExt(v.val().(Int).Term(w), 64))
	})
	V("String", func(g *G, v RV, a []Value) Value {
		if v.T == nil {
			return S("<invalid Value>")
		}
		if s, ok := v.val().(Str); ok {
			return s
		}
		return S("<" + typeString(v.T) + " Value>")
	})
	V("Bool", func(g *G, v RV, a []Value) Value { return v.val().(Bool) })
	V("Pointer", func(g *G, v RV, a []Value) Value { return Int{C: 0xdead} })

	reg("(reflect.StructTag).Get", func(g *G, fr *Frame, fn *ssa.Function, a []Value) Value {
		return S(reflect.StructTag(concStr(g, a[0])).Get(concStr(g, a[1])))
	})
	reg("(reflect.StructTag).Lookup", func(g *G, fr *Frame, fn *ssa.Function, a []Value) Value {
		v, ok := reflect.StructTag(concStr(g, a[0])).Lookup(concStr(g, a[1]))
		return Tuple{S(v), Bool{C: ok}}
	})
	reg("(reflect.Kind).String", func(g *G, fr *Frame, fn *ssa.Function, a []Value) Value {
		return S(reflect.Kind(a[0].(Int).C).String())
	})
}

func concStr(g *G, v Value) string {
	s := v.(Str)
	if !s.IsConc() {
		g.inconclusive("symbolic string where a concrete one is required")
	}
	return s.C
}

// deepEq: reflect.DeepEqual over interpreter values (symbolic leaves give a symbolic result)
func (g *G) deepEq(a, b Value, depth int) Bool {
	if depth > 50 {
		g.inconclusive("reflect.DeepEqual recursion depth")
	}
	and := func(x, y Bool) Bool { return mkBool(And(x.Term(), y.Term())) }
	switch x := a.(type) {
	case Iface:
		y, ok := b.(Iface)
		if !ok {
			return Bool{C: false}
		}
		if x.T == nil || y.T == nil {
			return Bool{C: x.T == nil && y.T == nil}
		}
		if !types.Identical(x.T, y.T) {
			return Bool{C: false}
		}
		return g.deepEq(x.V, y.V, depth+1)
	case *Value:
		y, ok := b.(*Value)
		if !ok {
			return Bool{C: false}
		}
		if x == nil || y == nil {
			return Bool{C: x == nil && y == nil}
		}
		if x == y {
			return Bool{C: true}
		}
		return g.deepEq(*x, *y, depth+1)
	case Struct:
		y := b.(Struct)
		r := Bool{C: true}
		for i := range x {
			r = and(r, g.deepEq(x[i], y[i], depth+1))
		}
		return r
	case Array:
		y := b.(Array)
		r := Bool{C: true}
		for i := range x {
			r = and(r, g.deepEq(x[i], y[i], depth+1))
		}
		return r
	case Slice:
		switch y := b.(type) {
		case Slice:
			if (x == nil) != (y == nil) || len(x) != len(y) {
				return Bool{C: false}
			}
			r := Bool{C: true}
			for i := range x {
				r = and(r, g.deepEq(x[i], y[i], depth+1))
			}
			return r
		case *Blob:
			return g.deepEq(blobFromSlice(g, x), y, depth+1)
		}
		return Bool{C: false}
	case *Blob:
		var y *Blob
		switch yy := b.(type) {
		case *Blob:
			y = yy
		case Slice:
			if (x == nil) != (yy == nil) {
				return Bool{C: false}
			}
			y = blobFromSlice(g, yy)
		default:
			return Bool{C: false}
		}
		if (x == nil) != (y == nil) {
			return Bool{C: false}
		}
		xt, ok1 := x.byteTerms()
		yt, ok2 := y.byteTerms()
		if !ok1 || !ok2 {
			g.inconclusive("reflect.DeepEqual on abstract payloads")
		}
		if len(xt) != len(yt) {
			return Bool{C: false}
		}
		c := TrueT
		for i := range xt {
			c = And(c, Eq(xt[i], yt[i]))
		}
		return mkBool(c)
	case *MapV:
		y, ok := b.(*MapV)
		if !ok {
			return Bool{C: false}
		}
		if (x == nil) != (y == nil) || x.Len() != y.Len() {
			return Bool{C: false}
		}
		r := Bool{C: true}
		for i := range x.Keys {
			j := g.mapFind(y, x.Keys[i])
			if j < 0 {
				return Bool{C: false}
			}
			r = and(r, g.deepEq(x.Vals[i], y.Vals[j], depth+1))
		}
		return r
	case *Closure:
		y, _ := b.(*Closure)
		return Bool{C: x == nil && y == nil}
	}
	return eqVals(g, a, b)
}

func init() {
	I := func(v int) Value { return Int{C: uint64(int64(v))} }
	reg("reflect.TypeFor", func(g *G, fr *Frame, fn *ssa.Function, a []Value) Value {
		ta := fn.TypeArgs()
		if len(ta) != 1 {
			g.inconclusive("reflect.TypeFor without a type argument")
		}
		return g.rtype(ta[0])
	})
	reg("reflect.DeepEqual", func(g *G, fr *Frame, fn *ssa.Function, a []Value) Value {
		return g.deepEq(a[0], a[1], 0)
	})
	reg("reflect.MakeSlice", func(g *G, fr *Frame, fn *ssa.Function, a []Value) Value {
		t := asRType(g, a[0]).T
		st, ok := under(t).(*types.Slice)
		if !ok {
			g.goPanicPlain("reflect.MakeSlice of non-slice type")
		}
		n, c := int(a[1].(Int).C), int(a[2].(Int).C)
		s := make(Slice, n, c)
		for i := range s {
			s[i] = zero(st.Elem())
		}
		return RV{T: t, V: s}
	})
	reg("reflect.MakeMap", func(g *G, fr *Frame, fn *ssa.Function, a []Value) Value {
		t := asRType(g, a[0]).T
		mt, ok := under(t).(*types.Map)
		if !ok {
			g.goPanicPlain("reflect.MakeMap of non-map type")
		}
		return RV{T: t, V: &MapV{KT: mt.Key()}}
	})
	reg("reflect.Append", func(g *G, fr *Frame, fn *ssa.Function, a []Value) Value {
		s := asRV(a[0])
		st := under(s.T).(*types.Slice)
		out, _ := s.val().(Slice)
		for _, x := range sliceArgs(a[1]) {
			out = append(out, copyVal(toDeclared(x.(RV), st.Elem())))
		}
		return RV{T: s.T, V: out}
	})
	V := func(name string, f func(g *G, v RV, a []Value) Value) {
		reg("(reflect.Value)."+name, func(g *G, fr *Frame, fn *ssa.Function, a []Value) Value {
			return f(g, asRV(a[0]), a[1:])
		})
	}
	V("Index", func(g *G, v RV, a []Value) Value {
		i := a[0].(Int)
		switch x := v.val().(type) {
		case Slice:
			k := g.concreteIndex(i, len(x), "reflect slice")
			return RV{T: under(v.T).(*types.Slice).Elem(), Addr: &x[k]}
		case Array:
			k := g.concreteIndex(i, len(x), "reflect array")
			if v.Addr != nil {
				arr := (*v.Addr).(Array)
				return RV{T: under(v.T).(*types.Array).Elem(), Addr: &arr[k]}
			}
			return RV{T: under(v.T).(*types.Array).Elem(), V: x[k]}
		case Str:
			bs, _ := x.Bytes()
			k := g.concreteIndex(i, len(bs), "reflect string")
			return RV{T: types.Typ[types.Uint8], V: mkInt(bs[k])}
		}
		g.goPanicPlain("reflect: call of reflect.Value.Index on " + kindOf(v.T).String() + " Value")
		return nil
	})
	V("Cap", func(g *G, v RV, a []Value) Value {
		if s, ok := v.val().(Slice); ok {
			return I(cap(s))
		}
		return g.lenOf(v.val())
	})
	V("FieldByName", func(g *G, v RV, a []Value) Value {
		st, ok := under(v.T).(*types.Struct)
		if !ok {
			g.goPanicPlain("reflect: call of reflect.Value.FieldByName on " + kindOf(v.T).String() + " Value")
		}
		name := concStr(g, a[0])
		for i := 0; i < st.NumFields(); i++ {
			if st.Field(i).Name() == name {
				if v.Addr != nil {
					s := (*v.Addr).(Struct)
					return RV{T: st.Field(i).Type(), Addr: &s[i]}
				}
				return RV{T: st.Field(i).Type(), V: v.V.(Struct)[i]}
			}
		}
		return RV{}
	})
	V("MapIndex", func(g *G, v RV, a []Value) Value {
		mt := under(v.T).(*types.Map)
		m, _ := v.val().(*MapV)
		k := a[0].(RV)
		i := g.mapFind(m, toDeclared(k, mt.Key()))
		if i < 0 {
			return RV{}
		}
		return RV{T: mt.Elem(), V: m.Vals[i]}
	})
	V("SetMapIndex", func(g *G, v RV, a []Value) Value {
		mt := under(v.T).(*types.Map)
		m, _ := v.val().(*MapV)
		if m == nil {
			g.goPanicPlain("assignment to entry in nil map")
		}
		k, e := a[0].(RV), a[1].(RV)
		if e.T == nil {
			g.mapDelete(m, toDeclared(k, mt.Key()))
			return nil
		}
		g.mapSet(m, toDeclared(k, mt.Key()), copyVal(toDeclared(e, mt.Elem())))
		return nil
	})
	V("MapKeys", func(g *G, v RV, a []Value) Value {
		mt := under(v.T).(*types.Map)
		m, _ := v.val().(*MapV)
		var out Slice
		if m != nil {
			for _, k := range m.Keys {
				out = append(out, RV{T: mt.Key(), V: k})
			}
		}
		return out
	})
	V("Float", func(g *G, v RV, a []Value) Value { return v.val().(F64) })
	V("SetInt", func(g *G, v RV, a []Value) Value {
		if v.Addr == nil {
			g.goPanicPlain("reflect: reflect.Value.SetInt using unaddressable value")
		}
		w, _, _ := intWidth(v.T)
		store(v.Addr, mkInt(Extract(a[0].(Int).Term(64), w-1, 0)))
		return nil
	})
	V("SetString", func(g *G, v RV, a []Value) Value {
		if v.Addr == nil {
			g.goPanicPlain("reflect: reflect.Value.SetString using unaddressable value")
		}
		store(v.Addr, a[0])
		return nil
	})
	V("SetBool", func(g *G, v RV, a []Value) Value {
		if v.Addr == nil {
			g.goPanicPlain("reflect: reflect.Value.SetBool using unaddressable value")
		}
		store(v.Addr, a[0])
		return nil
	})
	V("Method", func(g *G, v RV, a []Value) Value {
		ms := g.run.P.methods(v.T)
		i := int(a[0].(Int).C)
		if i < 0 || i >= len(ms) {
			g.goPanicPlain("reflect: Method index out of range")
		}
		sel := ms[i]
		fnv := g.run.P.Prog.MethodValue(sel)
		recv := v.val()
		bound := &Closure{Name: "bound:" + fnv.String(), Native: func(g *G, args []Value) Value {
			return g.callFn(&Closure{Fn: fnv}, append([]Value{recv}, args...), g.top, token.NoPos)
		}}
		return RV{T: sel.Type(), V: bound}
	})
	V("Send", func(g *G, v RV, a []Value) Value {
		ct := under(v.T).(*types.Chan)
		g.chanSend(v.val().(*Chan), copyVal(toDeclared(a[0].(RV), ct.Elem())))
		return nil
	})
	V("TryRecv", func(g *G, v RV, a []Value) Value {
		ct := under(v.T).(*types.Chan)
		idx, x, ok := g.selectCases([]*selCase{{ch: v.val().(*Chan)}}, true)
		if idx < 0 {
			return Tuple{RV{}, Bool{C: false}}
		}
		return Tuple{RV{T: ct.Elem(), V: x}, Bool{C: ok}}
	})
	V("TrySend", func(g *G, v RV, a []Value) Value {
		ct := under(v.T).(*types.Chan)
		idx, _, _ := g.selectCases([]*selCase{{ch: v.val().(*Chan), isSend: true, sendV: copyVal(toDeclared(a[0].(RV), ct.Elem()))}}, true)
		return Bool{C: idx >= 0}
	})
	V("Recv", func(g *G, v RV, a []Value) Value {
		ct := under(v.T).(*types.Chan)
		x, ok := g.chanRecv(v.val().(*Chan))
		return Tuple{RV{T: ct.Elem(), V: x}, Bool{C: ok}}
	})
	T := func(name string, f func(g *G, t types.Type, a []Value) Value) {
		reg("(*reflect.rtype)."+name, func(g *G, fr *Frame, fn *ssa.Function, a []Value) Value {
			return f(g, asRType(g, a[0]).T, a[1:])
		})
	}
	T("Key", func(g *G, t types.Type, a []Value) Value {
		mt, ok := under(t).(*types.Map)
		if !ok {
			g.goPanicPlain("reflect: Key of non-map type " + typeString(t))
		}
		return g.rtype(mt.Key())
	})
	T("Len", func(g *G, t types.Type, a []Value) Value {
		at, ok := under(t).(*types.Array)
		if !ok {
			g.goPanicPlain("reflect: Len of non-array type " + typeString(t))
		}
		return I(int(at.Len()))
	})
	T("IsVariadic", func(g *G, t types.Type, a []Value) Value {
		sig, ok := under(t).(*types.Signature)
		if !ok {
			g.goPanicPlain("reflect: IsVariadic of non-func type " + typeString(t))
		}
		return Bool{C: sig.Variadic()}
	})
	T("FieldByName", func(g *G, t types.Type, a []Value) Value {
		st, ok := under(t).(*types.Struct)
		if !ok {
			g.goPanicPlain("reflect: FieldByName of non-struct type " + typeString(t))
		}
		name := concStr(g, a[0])
		sft := g.run.P.NamedType("reflect", "StructField")
		for i := 0; i < st.NumFields(); i++ {
			f := st.Field(i)
			if f.Name() == name {
				return Tuple{g.mkStruct(sft, map[string]Value{"Name": S(f.Name()), "Type": g.rtype(f.Type()), "Tag": S(st.Tag(i)), "Index": Slice{I(i)}, "Anonymous": Bool{C: f.Embedded()}}), Bool{C: true}}
			}
		}
		return Tuple{zero(sft), Bool{C: false}}
	})
	T("ChanDir", func(g *G, t types.Type, a []Value) Value {
		ct, ok := under(t).(*types.Chan)
		if !ok {
			g.goPanicPlain("reflect: ChanDir of non-chan type " + typeString(t))
		}
		switch ct.Dir() {
		case types.SendOnly:
			return I(int(reflect.SendDir))
		case types.RecvOnly:
			return I(int(reflect.RecvDir))
		}
		return I(int(reflect.BothDir))
	})
}
