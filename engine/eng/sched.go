package eng

// Cooperative scheduler. Every interpreted goroutine is a real goroutine, but
// exactly one holds the baton at any time. Visible operations are scheduling
// points; pre-emptive switches are bounded (Bounds.Preempt).

import (
	"fmt"
	"go/token"
	"go/types"
	"sort"
	"strings"

	"golang.org/x/tools/go/ssa"
)

type G struct {
	id      int
	run     *Run
	name    string
	lib     bool // created by library code
	lazy    bool // runs only when nobody else can (bound "lazy:<entry substring>")
	resume  chan struct{}
	op      *Op
	done    bool
	top     *Frame
	depth   int
	entry   string
	parkSeq int
	daemon  bool // harness helper: not counted for leaks
	vc      VC
	held    []*Mutex
	serverConn bool // goroutine standing for the HTTP server serving an upgraded connection
}

type Op struct {
	desc      string
	obj       interface{}
	enabled   func() bool
	completed bool  // a partner already performed the transfer
	val       Value // received value (for completed recv)
	ok        bool
	// for select
	sel      []*selCase
	selIdx   int
	hasDef   bool
	// simple send/recv descriptors so partners can find us
	ch     *Chan
	isSend bool
	sendV  Value
	isSleep bool
	waitStep bool
	isQuiesce bool
}

type selCase struct {
	ch     *Chan
	isSend bool
	sendV  Value
}

type Chan struct {
	id     int
	cap    int
	buf    []Value
	closed bool
	elem   types.Type
	name   string
}

func (c *Chan) String() string {
	if c == nil {
		return "chan(nil)"
	}
	return fmt.Sprintf("chan#%d", c.id)
}

func (r *Run) newChan(capacity int, elem types.Type) *Chan {
	r.nextObj++
	return &Chan{id: r.nextObj, cap: capacity, elem: elem}
}

func (g *G) String() string { return fmt.Sprintf("g%d(%s)", g.id, g.name) }

// ---- goroutine lifecycle ----

func (g *G) spawn(cl *Closure, args []Value, fr *Frame, pos token.Pos) *G {
	r := g.run
	lib := g.lib
	if fr != nil && fr.fn != nil && isModulePkg(fnPkgPath(fr.fn)) {
		lib = true
	}
	name := "?"
	if cl.Fn != nil {
		name = cl.Fn.String()
	} else if cl.Name != "" {
		name = cl.Name
	}
	ng := r.newG(name, lib)
	if r.raceOn {
		g.vcTick()
		ng.vc = g.vc.copy()
		ng.vcTick() // the child's own component: what it does is not ordered before later children of its parent
	}
	r.startG(ng, func() { ng.callFn(cl, args, nil, pos) })
	// creating a goroutine is a scheduling point
	g.schedPoint(&Op{desc: "go " + name, enabled: func() bool { return true }})
	return ng
}

func (r *Run) newG(name string, lib bool) *G {
	g := &G{id: r.nextGID, run: r, name: name, lib: lib, resume: make(chan struct{}, 1), entry: name}
	for k, v := range r.B.Params {
		// bound "lazy:<substring>": goroutines whose entry function matches run only when nobody
		// else can (a lagging worker), at no cost in deviations
		if v == 1 && strings.HasPrefix(k, "lazy:") && strings.Contains(name, k[5:]) {
			g.lazy = true
		}
	}
	r.nextGID++
	r.gs = append(r.gs, g)
	return g
}

// startG launches the real goroutine parked at an always-enabled "start" op.
func (r *Run) startG(ng *G, body func()) {
	ng.op = &Op{desc: "start", enabled: func() bool { return true }}
	r.parkSeq++
	ng.parkSeq = r.parkSeq
	r.wg.Add(1)
	go func() {
		defer r.wg.Done()
		<-ng.resume
		if r.aborted {
			return
		}
		ng.op = nil
		r.cur = ng
		defer func() {
			p := recover()
			switch p := p.(type) {
			case nil, goexit:
			case abortRun:
				r.finish()
				return
			case targetPanic:
				// an unrecovered panic kills the process
				r.crashed = fmt.Sprintf("%s: panic: %s", ng, r.panicText(ng, p.v))
				r.obs = append(r.obs, "CRASH "+r.crashed)
				if r.outcome == OutOK {
					r.processCrashed(ng)
				}
				r.finish()
				return
			default:
				if r.outcome == OutOK {
					r.outcome = OutInconclusive
					r.reason = fmt.Sprintf("engine panic: %v", p)
					r.enginePanic = fmt.Sprintf("%v\n%s", p, stack())
				}
				r.finish()
				return
			}
			ng.done = true
			if r.aborted {
				return
			}
			ng.passBaton()
		}()
		body()
	}()
}

func (r *Run) finish() {
	if !r.aborted {
		r.aborted = true
		close(r.done)
	}
}

// passBaton: called by a goroutine that terminates.
func (g *G) passBaton() {
	r := g.run
	next := r.pickNext(nil)
	if next == nil {
		r.quiescent(g)
		return
	}
	r.resumeG(next)
}

func (r *Run) resumeG(next *G) {
	r.cur = next
	next.resume <- struct{}{}
}

// schedPoint parks g on op until the scheduler lets it perform op.
func (g *G) schedPoint(op *Op) {
	r := g.run
	if r.aborted {
		panic(abortRun{})
	}
	g.op = op
	r.parkSeq++
	g.parkSeq = r.parkSeq
	next := r.pickNext(g)
	if next == g {
		g.op = nil
		return
	}
	if next == nil {
		// nobody can move
		r.quiescent(g)
	} else {
		r.resumeG(next)
	}
	<-g.resume
	if r.aborted {
		panic(abortRun{})
	}
	g.op = nil
}

func (r *Run) isEnabled(x *G) bool {
	return !x.done && x.op != nil && (x.op.completed || x.op.enabled())
}

// refreshRunq keeps a FIFO of runnable goroutines: goroutines that became
// enabled are appended (in id order), blocked or finished ones are dropped.
func (r *Run) refreshRunq() {
	var keep []*G
	in := map[*G]bool{}
	for _, x := range r.runq {
		if r.isEnabled(x) {
			keep = append(keep, x)
			in[x] = true
		}
	}
	var fresh []*G
	for _, x := range r.gs {
		if !in[x] && r.isEnabled(x) {
			fresh = append(fresh, x)
		}
	}
	sort.Slice(fresh, func(i, j int) bool { return fresh[i].id < fresh[j].id })
	r.runq = append(keep, fresh...)
}

// pickNext chooses who performs the next visible operation. cur is the
// goroutine that just parked (nil if it terminated).
//
// Base schedule: non-pre-emptive, FIFO run queue (the current goroutine keeps
// running while it can; when it blocks the longest-runnable goroutine goes).
// Deviations ("delays", Emmi/Qadeer/Rakamaric 2011): at any scheduling point the
// goroutine that would run can be moved to the back of the queue, at a cost of
// one unit of the bound B.Preempt. Pre-empting the current goroutine is the
// special case of delaying it.
func (r *Run) pickNext(cur *G) *G {
	r.visibleOps++
	r.refreshRunq()
	if cur != nil && r.isEnabled(cur) {
		// current first
		for i, x := range r.runq {
			if x == cur {
				r.runq = append(append([]*G{cur}, r.runq[:i]...), r.runq[i+1:]...)
				break
			}
		}
	}
	// lazy goroutines go behind everybody else (stable)
	if len(r.runq) > 1 {
		var front, back []*G
		for _, x := range r.runq {
			if x.lazy {
				back = append(back, x)
			} else {
				front = append(front, x)
			}
		}
		if len(front) > 0 && len(back) > 0 {
			r.runq = append(front, back...)
		}
	}
	evs := r.env.optionalEvents(r)
	n := len(r.runq)
	if n == 0 {
		if ev := r.env.mandatoryEvent(r); ev != nil {
			ev.fire(r)
			return r.pickNext(cur)
		}
		return nil
	}
	// number of delays affordable here
	maxDelay := r.B.Preempt - r.deviations
	if maxDelay > n-1 {
		maxDelay = n - 1
	}
	if maxDelay < 0 {
		maxDelay = 0
	}
	opts := 1 + maxDelay
	// optional environment events (timer firings) are further options while their budget lasts
	k := 0
	if opts+len(evs) > 1 {
		k = r.choose("sched", opts+len(evs))
	}
	if k >= opts {
		evs[k-opts].fire(r)
		return r.pickNext(cur)
	}
	if k > 0 {
		r.deviations += k
		// move the k delayed goroutines to the back
		r.runq = append(append([]*G{}, r.runq[k:]...), r.runq[:k]...)
	}
	next := r.runq[0]
	if next != cur {
		why := "switch"
		if k > 0 {
			why = fmt.Sprintf("delay*%d", k)
		}
		r.logSched(next, why)
	}
	return next
}

func (r *Run) logSched(g *G, why string) {
	if len(r.schedLog) < 400 {
		d := ""
		if g.op != nil {
			d = g.op.desc
		}
		r.schedLog = append(r.schedLog, fmt.Sprintf("%s g%d %s", why, g.id, d))
	}
}

// quiescent: no goroutine can move. If the harness main is waiting in
// verif.Quiesce it is woken; otherwise the path ends.
func (r *Run) quiescent(from *G) {
	// optional timer events may still fire if budget remains: that is a choice
	evs := r.env.optionalEvents(r)
	if len(evs) > 0 && r.timersFired < r.B.Timers {
		k := r.choose("quiesce-or-timer", len(evs)+1)
		if k > 0 {
			evs[k-1].fire(r)
			if next := r.pickNext(nil); next != nil {
				r.resumeG(next)
				return
			}
			r.quiescent(from)
			return
		}
	}
	if r.main != nil && !r.main.done && r.quiesceWait {
		r.quiesceWait = false
		r.logSched(r.main, "quiescent->main")
		if r.main == from && from.op != nil {
			// main itself detected quiescence: just continue
			from.resume <- struct{}{}
			return
		}
		r.resumeG(r.main)
		return
	}
	if r.main != nil && !r.main.done {
		if r.outcome == OutOK {
			r.mainBlocked(from)
			if r.outcome == OutOK {
				r.outcome = OutViolation
			}
			r.reason = "harness main goroutine blocked forever"
		}
	}
	r.finish()
}

func (r *Run) blockedSummary() string {
	var parts []string
	for _, x := range r.gs {
		if !x.done && x.op != nil {
			parts = append(parts, fmt.Sprintf("g%d[%s] at %s in %s", x.id, x.entry, x.op.desc, x.where()))
		}
	}
	return strings.Join(parts, "; ")
}

// Leftover returns goroutines that are not finished (used by leak oracles).
func (r *Run) leftover(libOnly bool) []*G {
	var out []*G
	for _, x := range r.gs {
		if x.done || x == r.main || x.daemon {
			continue
		}
		if libOnly && !x.lib {
			continue
		}
		out = append(out, x)
	}
	return out
}

// ---- channels ----

func (r *Run) parkedOn(ch *Chan, wantSend bool, except *G) (*G, int) {
	var best *G
	bestIdx := -1
	for _, x := range r.gs {
		if x.done || x == except || x.op == nil || x.op.completed {
			continue
		}
		op := x.op
		if op.sel != nil {
			for i, c := range op.sel {
				if c.ch == ch && c.isSend == wantSend {
					if best == nil || x.parkSeq < best.parkSeq {
						best, bestIdx = x, i
					}
					break
				}
			}
			continue
		}
		if op.ch == ch && op.isSend == wantSend {
			if best == nil || x.parkSeq < best.parkSeq {
				best, bestIdx = x, -1
			}
		}
	}
	return best, bestIdx
}

func (r *Run) canSend(ch *Chan, me *G) bool {
	if ch == nil {
		return false
	}
	if ch.closed || len(ch.buf) < ch.cap {
		return true
	}
	if len(ch.buf) > 0 {
		// full buffered channel: a receiver waiting at its scheduling point takes
		// from the buffer first; the send becomes enabled only after that
		return false
	}
	p, _ := r.parkedOn(ch, false, me)
	return p != nil
}

func (r *Run) canRecv(ch *Chan, me *G) bool {
	if ch == nil {
		return false
	}
	if ch.closed || len(ch.buf) > 0 {
		return true
	}
	p, _ := r.parkedOn(ch, true, me)
	return p != nil
}

func (g *G) doSend(ch *Chan, v Value) {
	r := g.run
	if ch.closed {
		g.goPanicPlain("send on closed channel")
	}
	if p, idx := r.parkedOn(ch, false, g); p != nil && len(ch.buf) == 0 {
		p.op.completed = true
		p.op.val = v
		p.op.ok = true
		p.op.selIdx = idx
		return
	}
	if len(ch.buf) < ch.cap {
		ch.buf = append(ch.buf, v)
		return
	}
	panic("doSend: not enabled")
}

func (g *G) doRecv(ch *Chan) (Value, bool) {
	r := g.run
	if len(ch.buf) > 0 {
		v := ch.buf[0]
		ch.buf = append([]Value{}, ch.buf[1:]...)
		// a parked sender can now move its value into the buffer
		if p, idx := r.parkedOn(ch, true, g); p != nil {
			var sv Value
			if idx >= 0 {
				sv = p.op.sel[idx].sendV
			} else {
				sv = p.op.sendV
			}
			ch.buf = append(ch.buf, sv)
			p.op.completed = true
			p.op.selIdx = idx
		}
		return v, true
	}
	if p, idx := r.parkedOn(ch, true, g); p != nil {
		var sv Value
		if idx >= 0 {
			sv = p.op.sel[idx].sendV
		} else {
			sv = p.op.sendV
		}
		p.op.completed = true
		p.op.selIdx = idx
		return sv, true
	}
	if ch.closed {
		return zero(ch.elem), false
	}
	panic("doRecv: not enabled")
}

func (g *G) chanSend(ch *Chan, v Value) {
	r := g.run
	op := &Op{desc: "send " + ch.String(), obj: ch, ch: ch, isSend: true, sendV: v}
	op.enabled = func() bool { return r.canSend(ch, g) }
	g.hbRelease(ch)
	g.schedPoint(op)
	if op.completed {
		return
	}
	g.doSend(ch, v)
}

func (g *G) chanRecv(ch *Chan) (Value, bool) {
	r := g.run
	op := &Op{desc: "recv " + ch.String(), obj: ch, ch: ch}
	op.enabled = func() bool { return r.canRecv(ch, g) }
	g.schedPoint(op)
	defer g.hbAcquire(ch)
	if op.completed {
		return op.val, op.ok
	}
	return g.doRecv(ch)
}

func (g *G) chanClose(ch *Chan) {
	g.schedPoint(&Op{desc: "close " + ch.String(), obj: ch, enabled: func() bool { return true }})
	if ch == nil {
		g.goPanicPlain("close of nil channel")
	}
	if ch.closed {
		g.goPanicPlain("close of closed channel")
	}
	g.hbRelease(ch)
	ch.closed = true
}

func (g *G) goPanicPlain(msg string) {
	t := g.run.P.NamedType("runtime", "plainError")
	panic(targetPanic{Iface{T: t, V: S(msg)}})
}

// selectCases: generic select used by ssa.Select and reflect.Select.
// Returns (index, recvValue, recvOk). index -1 = default.
func (g *G) selectCases(cases []*selCase, hasDefault bool) (int, Value, bool) {
	r := g.run
	ready := func() []int {
		var out []int
		for i, c := range cases {
			if c.ch == nil {
				continue
			}
			if c.isSend && r.canSend(c.ch, g) || !c.isSend && r.canRecv(c.ch, g) {
				out = append(out, i)
			}
		}
		return out
	}
	var descs []string
	for _, c := range cases {
		d := "<-"
		if c.isSend {
			d = "->"
		}
		descs = append(descs, d+c.ch.String())
	}
	op := &Op{desc: "select{" + strings.Join(descs, ",") + "}", sel: cases, hasDef: hasDefault, selIdx: -1}
	op.enabled = func() bool { return hasDefault || len(ready()) > 0 }
	for _, c := range cases {
		if c.isSend && c.ch != nil {
			g.hbRelease(c.ch)
		}
	}
	g.schedPoint(op)
	if op.completed {
		if op.selIdx >= 0 && !cases[op.selIdx].isSend {
			g.hbAcquire(cases[op.selIdx].ch)
		}
		return op.selIdx, op.val, op.ok
	}
	rd := ready()
	if len(rd) == 0 {
		if hasDefault {
			return -1, nil, false
		}
		panic("select: resumed while not enabled")
	}
	k := r.deviate("select", len(rd))
	i := rd[k]
	c := cases[i]
	if c.isSend {
		g.doSend(c.ch, c.sendV)
		return i, nil, false
	}
	v, ok := g.doRecv(c.ch)
	g.hbAcquire(c.ch)
	return i, v, ok
}

func (fr *Frame) selectOp(in *ssa.Select) Value {
	g := fr.g
	cases := make([]*selCase, len(in.States))
	for i, st := range in.States {
		ch, _ := fr.get(st.Chan).(*Chan)
		c := &selCase{ch: ch, isSend: st.Dir == types.SendOnly}
		if c.isSend {
			c.sendV = copyVal(fr.get(st.Send))
		}
		cases[i] = c
	}
	idx, v, ok := g.selectCases(cases, !in.Blocking)
	res := Tuple{Int{C: uint64(int64(idx))}, Bool{C: ok}}
	for i, st := range in.States {
		if st.Dir == types.RecvOnly {
			if i == idx {
				res = append(res, v)
			} else {
				res = append(res, zero(st.Chan.Type().Underlying().(*types.Chan).Elem()))
			}
		}
	}
	return res
}

// ---- sync.Mutex / RWMutex / Once / WaitGroup ----

type Mutex struct {
	id      int
	locked  bool
	readers int
	owner   *G
}

func (r *Run) mutexAt(p *Value) *Mutex {
	m := r.mutexes[p]
	if m == nil {
		r.nextObj++
		m = &Mutex{id: r.nextObj}
		r.mutexes[p] = m
	}
	return m
}

func (g *G) mutexLock(p *Value) {
	m := g.run.mutexAt(p)
	g.schedPoint(&Op{desc: fmt.Sprintf("lock m%d", m.id), obj: m, enabled: func() bool { return !m.locked && m.readers == 0 }})
	m.locked = true
	m.owner = g
	g.held = append(g.held, m)
	g.hbAcquire(m)
}

func (g *G) mutexUnlock(p *Value) {
	m := g.run.mutexAt(p)
	g.schedPoint(&Op{desc: fmt.Sprintf("unlock m%d", m.id), obj: m, enabled: func() bool { return true }})
	if !m.locked {
		g.fatal("sync: unlock of unlocked mutex")
	}
	g.hbRelease(m)
	if o := m.owner; o != nil {
		for i, x := range o.held {
			if x == m {
				o.held = append(o.held[:i:i], o.held[i+1:]...)
				break
			}
		}
	}
	m.locked = false
	m.owner = nil
}

func (g *G) mutexRLock(p *Value) {
	m := g.run.mutexAt(p)
	g.schedPoint(&Op{desc: fmt.Sprintf("rlock m%d", m.id), obj: m, enabled: func() bool { return !m.locked }})
	m.readers++
}

func (g *G) mutexRUnlock(p *Value) {
	m := g.run.mutexAt(p)
	g.schedPoint(&Op{desc: fmt.Sprintf("runlock m%d", m.id), obj: m, enabled: func() bool { return true }})
	if m.readers == 0 {
		g.fatal("sync: RUnlock of unlocked RWMutex")
	}
	m.readers--
}

// fatal: unrecoverable runtime throw → process crash
func (g *G) fatal(msg string) {
	r := g.run
	r.crashed = fmt.Sprintf("%s: fatal error: %s", g, msg)
	r.obs = append(r.obs, "CRASH "+r.crashed)
	if r.outcome == OutOK {
		r.processCrashed(g)
	}
	panic(abortRun{})
}

type Once struct {
	done    bool
	running bool
}

func (g *G) onceDo(p *Value, f *Closure) {
	r := g.run
	o := r.onces[p]
	if o == nil {
		o = &Once{}
		r.onces[p] = o
	}
	g.schedPoint(&Op{desc: "once.Do", obj: o, enabled: func() bool { return !o.running }})
	if o.done {
		g.hbAcquire(o)
		return
	}
	o.running = true
	defer func() { g.hbRelease(o); o.running = false; o.done = true }()
	g.callFn(f, nil, g.top, token.NoPos)
}

type WaitGroupObj struct{ n int64 }

func (r *Run) wgAt(p *Value) *WaitGroupObj {
	w := r.wgs[p]
	if w == nil {
		w = &WaitGroupObj{}
		r.wgs[p] = w
	}
	return w
}

// ---- process-level events ----

func (r *Run) panicText(g *G, v Value) string {
	return showPanicValue(g, v)
}

func stack() string {
	buf := make([]byte, 1<<14)
	n := runtimeStack(buf)
	return string(buf[:n])
}

// deviate picks among n alternatives where alternative k costs k units of the
// deviation bound (0 is the default and free).
func (r *Run) deviate(kind string, n int) int {
	max := r.B.Preempt - r.deviations
	if max > n-1 {
		max = n - 1
	}
	if max <= 0 {
		return 0
	}
	k := r.choose(kind, max+1)
	r.deviations += k
	return k
}
