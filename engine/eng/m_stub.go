package eng

type Listener struct{}
type WSPair struct{}
type HTTPMount struct{}
