package eng

// Environment: timers, the symbolic clock, network endpoints. Events are
// either mandatory (must eventually happen: message delivery) or optional
// (may happen while budget lasts: timer firings).

import "fmt"

type Event interface {
	fire(r *Run)
	String() string
}

type Env struct {
	r         *Run
	timers    []*Timer
	listeners map[string]*Listener
	pairs     []*WSConnPair
	dialLog   []string
	sleepsAtDial  map[string]int
	unbackedDials int
	httpSrv   map[string]*HTTPMount
}

func newEnv(r *Run) *Env {
	return &Env{r: r, listeners: map[string]*Listener{}, httpSrv: map[string]*HTTPMount{}}
}

type Timer struct {
	id     int
	ch     *Chan
	armed  bool
	dur    Value // Int duration
	fn     *Closure
	fired  int
	ticker bool
	cell   *Value
	resets []Value
	durFirst Value
	viaAfter bool
	owner    *G
}

func (t *Timer) String() string { return fmt.Sprintf("timer#%d", t.id) }

func (t *Timer) fire(r *Run) {
	r.timersFired++
	t.fired++
	if !t.ticker {
		t.armed = false
	}
	r.obs = append(r.obs, fmt.Sprintf("timer#%d fires (d=%s)", t.id, showVal(t.dur)))
	if t.ch != nil && len(t.ch.buf) < t.ch.cap {
		t.ch.buf = append(t.ch.buf, zero(t.ch.elem))
	}
	if t.fn != nil && t.owner != nil {
		ng := r.newG("AfterFunc", t.owner.lib)
		fn := t.fn
		r.startG(ng, func() { ng.callFn(fn, nil, nil, 0) })
	}
}

func (e *Env) newTimer(dur Value, withChan bool) *Timer {
	r := e.r
	r.nextObj++
	t := &Timer{id: r.nextObj, dur: dur, durFirst: dur, armed: true}
	if withChan {
		t.ch = r.newChan(1, r.P.NamedType("time", "Time"))
	}
	e.timers = append(e.timers, t)
	return t
}

func (e *Env) optionalEvents(r *Run) []Event {
	if r.timersFired >= r.B.Timers {
		return nil
	}
	var out []Event
	for _, t := range e.timers {
		if t.armed {
			if r.B.Params["fire_after_only"] == 1 && !t.viaAfter {
				continue
			}
			out = append(out, t)
		}
	}
	for _, p := range e.pairs {
		for _, end := range []*WSEnd{p.client, p.server} {
			if !end.wdlExpired && end.flushStalled(r) && ((end.wdlSet && end.flushWaiters > 0) || end.ctlDlWaiters > 0) {
				out = append(out, wsWriteDeadlineEv{end})
			}
		}
	}
	return out
}

func (e *Env) mandatoryEvent(r *Run) Event { return nil }
