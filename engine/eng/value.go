package eng

import (
	"fmt"
	"go/types"
	"math"
	"sort"
	"strconv"
	"strings"

	"golang.org/x/tools/go/ssa"
)

// Value is an interpreter value. Concrete representations:
//
//	Int, Bool, F64, Str     scalars (each concrete or symbolic)
//	*Value                  pointer (nil pointer is (*Value)(nil))
//	Struct, Array, Tuple    aggregates
//	Slice, *Blob            slices ([]byte may be a *Blob)
//	*MapV, *Chan            reference types
//	*Closure, *Intrinsic    functions
//	Iface                   interface values
//	RV, *RType, ...         model objects
type Value interface{}

type Int struct {
	C uint64
	T *Term
}
type Bool struct {
	C bool
	T *Term
}
type F64 struct {
	C float64
	T *Term
}
type Struct []Value
type Array []Value
type Tuple []Value
type Slice []Value

type Iface struct {
	T types.Type // dynamic type; nil for nil interface
	V Value
}

type Closure struct {
	Fn  *ssa.Function
	Env []Value
	// reflect.MakeFunc wrapper
	MF     *Closure // target func([]reflect.Value) []reflect.Value
	MFType *types.Signature
	// native callable
	Native func(g *G, args []Value) Value
	Name   string
}

type MapV struct {
	Keys []Value
	Vals []Value
	KT   types.Type
}

func (m *MapV) Len() int {
	if m == nil {
		return 0
	}
	return len(m.Keys)
}

// ---------- strings: ropes of concrete chunks, symbolic bytes, opaque tokens ----------

type Seg struct {
	C string
	B *Term  // symbolic byte (BV8)
	Q string // opaque token id (unknown content and length)
}

type Str struct {
	C    string
	Segs []Seg // nil → concrete C
}

func S(s string) Str { return Str{C: s} }

func (s Str) IsConc() bool { return s.Segs == nil }

func (s Str) segs() []Seg {
	if s.Segs == nil {
		if s.C == "" {
			return nil
		}
		return []Seg{{C: s.C}}
	}
	return s.Segs
}

func normStr(segs []Seg) Str {
	var out []Seg
	allc := true
	for _, sg := range segs {
		if sg.B != nil && sg.B.IsConst() {
			sg = Seg{C: string([]byte{byte(sg.B.BV)})}
		}
		if sg.B == nil && sg.Q == "" {
			if sg.C == "" {
				continue
			}
			if n := len(out); n > 0 && out[n-1].B == nil && out[n-1].Q == "" {
				out[n-1].C += sg.C
				continue
			}
		} else {
			allc = false
		}
		out = append(out, sg)
	}
	if allc {
		if len(out) == 0 {
			return Str{}
		}
		return Str{C: out[0].C}
	}
	return Str{Segs: out}
}

func strConcat(a, b Str) Str {
	if a.IsConc() && b.IsConc() {
		return Str{C: a.C + b.C}
	}
	return normStr(append(append([]Seg{}, a.segs()...), b.segs()...))
}

func (s Str) HasOpaque() bool {
	for _, sg := range s.Segs {
		if sg.Q != "" {
			return true
		}
	}
	return false
}

// Bytes flattens into byte terms; ok=false if an opaque token is present.
func (s Str) Bytes() ([]*Term, bool) {
	var out []*Term
	for _, sg := range s.segs() {
		switch {
		case sg.Q != "":
			return nil, false
		case sg.B != nil:
			out = append(out, sg.B)
		default:
			for i := 0; i < len(sg.C); i++ {
				out = append(out, BVConst(uint64(sg.C[i]), 8))
			}
		}
	}
	return out, true
}

func strFromBytes(bs []*Term) Str {
	segs := make([]Seg, 0, len(bs))
	for _, b := range bs {
		if b.IsConst() {
			segs = append(segs, Seg{C: string([]byte{byte(b.BV)})})
		} else {
			segs = append(segs, Seg{B: b})
		}
	}
	return normStr(segs)
}

func (s Str) Len() (int, bool) {
	if s.IsConc() {
		return len(s.C), true
	}
	n := 0
	for _, sg := range s.Segs {
		switch {
		case sg.Q != "":
			return 0, false
		case sg.B != nil:
			n++
		default:
			n += len(sg.C)
		}
	}
	return n, true
}

func (s Str) String() string {
	if s.IsConc() {
		return fmt.Sprintf("%q", s.C)
	}
	var sb strings.Builder
	for _, sg := range s.Segs {
		switch {
		case sg.Q != "":
			sb.WriteString("‹" + sg.Q + "›")
		case sg.B != nil:
			sb.WriteString("‹" + sg.B.Key() + "›")
		default:
			sb.WriteString(sg.C)
		}
	}
	return sb.String()
}

// strEq returns the condition a == b. unknown=true if it cannot be expressed
// (opaque tokens that do not line up).
func strEq(a, b Str) (Bool, bool) {
	if a.IsConc() && b.IsConc() {
		return Bool{C: a.C == b.C}, false
	}
	if a.HasOpaque() || b.HasOpaque() {
		as, bs := a.segs(), b.segs()
		if len(as) == len(bs) {
			same := true
			for i := range as {
				x, y := as[i], bs[i]
				if x.Q != y.Q || x.C != y.C || (x.B == nil) != (y.B == nil) || (x.B != nil && !termEq(x.B, y.B)) {
					same = false
					break
				}
			}
			if same {
				return Bool{C: true}, false
			}
		}
		// the text of a JSON number never equals text that is not a number literal
		isNumTok := func(x Str) bool { return len(x.Segs) == 1 && strings.HasPrefix(x.Segs[0].Q, "jsonnum(") }
		notNumber := func(x Str) bool {
			if !x.IsConc() {
				return false
			}
			_, err := strconv.ParseFloat(x.C, 64)
			return err != nil
		}
		if (isNumTok(a) && notNumber(b)) || (isNumTok(b) && notNumber(a)) {
			return Bool{C: false}, false
		}
		// the text of a JSON array or object starts with its bracket: it never equals a
		// concrete text that starts otherwise (e.g. "null", "")
		bracket := func(x Str) byte {
			if len(x.Segs) == 1 && (strings.HasPrefix(x.Segs[0].Q, "json([") || strings.HasPrefix(x.Segs[0].Q, "json({")) {
				return x.Segs[0].Q[5]
			}
			return 0
		}
		differs := func(tok, conc Str) bool {
			c := bracket(tok)
			return c != 0 && conc.IsConc() && (conc.C == "" || conc.C[0] != c)
		}
		if differs(a, b) || differs(b, a) {
			return Bool{C: false}, false
		}
		return Bool{}, true
	}
	ab, _ := a.Bytes()
	bb, _ := b.Bytes()
	if len(ab) != len(bb) {
		return Bool{C: false}, false
	}
	c := TrueT
	for i := range ab {
		c = And(c, Eq(ab[i], bb[i]))
		if c.IsConst() && !c.B {
			return Bool{C: false}, false
		}
	}
	return mkBool(c), false
}

// strLess: lexicographic a < b (byte-wise, as Go).
func strLess(a, b Str) (Bool, bool) {
	if a.IsConc() && b.IsConc() {
		return Bool{C: a.C < b.C}, false
	}
	ab, ok1 := a.Bytes()
	bb, ok2 := b.Bytes()
	if !ok1 || !ok2 {
		return Bool{}, true
	}
	// from the end: less(i) = a[i]<b[i] or (a[i]==b[i] and less(i+1))
	n := len(ab)
	if len(bb) < n {
		n = len(bb)
	}
	res := BoolConst(len(ab) < len(bb))
	for i := n - 1; i >= 0; i-- {
		res = Or(BVCmp("bvult", ab[i], bb[i]), And(Eq(ab[i], bb[i]), res))
	}
	return mkBool(res), false
}

func mkBool(t *Term) Bool {
	if t.IsConst() {
		return Bool{C: t.B}
	}
	return Bool{T: t}
}

func mkInt(t *Term) Int {
	if t.IsConst() {
		return Int{C: t.BV}
	}
	return Int{T: t}
}

func mkF64(t *Term) F64 {
	if t.IsConst() {
		return F64{C: t.F}
	}
	return F64{T: t}
}

func (b Bool) Term() *Term {
	if b.T != nil {
		return b.T
	}
	return BoolConst(b.C)
}

func (i Int) Term(w int) *Term {
	if i.T != nil {
		return i.T
	}
	return BVConst(i.C, w)
}

func (f F64) Term() *Term {
	if f.T != nil {
		return f.T
	}
	return FPConst(f.C)
}

// ---------- type helpers ----------

func under(t types.Type) types.Type { return t.Underlying() }

func intWidth(t types.Type) (w int, signed bool, ok bool) {
	b, isb := under(t).(*types.Basic)
	if !isb {
		return 0, false, false
	}
	switch b.Kind() {
	case types.Int, types.Int64, types.UntypedInt:
		return 64, true, true
	case types.Int32, types.UntypedRune:
		return 32, true, true
	case types.Int16:
		return 16, true, true
	case types.Int8:
		return 8, true, true
	case types.Uint, types.Uint64, types.Uintptr:
		return 64, false, true
	case types.Uint32:
		return 32, false, true
	case types.Uint16:
		return 16, false, true
	case types.Uint8:
		return 8, false, true
	}
	return 0, false, false
}

func isFloat(t types.Type) bool {
	b, ok := under(t).(*types.Basic)
	return ok && (b.Kind() == types.Float64 || b.Kind() == types.Float32 || b.Kind() == types.UntypedFloat)
}

func isString(t types.Type) bool {
	b, ok := under(t).(*types.Basic)
	return ok && (b.Kind() == types.String || b.Kind() == types.UntypedString)
}

func isBool(t types.Type) bool {
	b, ok := under(t).(*types.Basic)
	return ok && (b.Kind() == types.Bool || b.Kind() == types.UntypedBool)
}

func isNamed(t types.Type, pkg, name string) bool {
	n, ok := types.Unalias(t).(*types.Named)
	if !ok {
		return false
	}
	o := n.Obj()
	return o.Name() == name && o.Pkg() != nil && o.Pkg().Path() == pkg
}

func isByteSlice(t types.Type) bool {
	s, ok := under(t).(*types.Slice)
	if !ok {
		return false
	}
	b, ok := under(s.Elem()).(*types.Basic)
	return ok && b.Kind() == types.Uint8
}

// zero returns the zero value of type t.
func zero(t types.Type) Value {
	if isNamed(t, "reflect", "Value") {
		return RV{}
	}
	switch u := under(t).(type) {
	case *types.Basic:
		switch {
		case u.Info()&types.IsBoolean != 0:
			return Bool{}
		case u.Info()&types.IsInteger != 0:
			return Int{}
		case u.Info()&types.IsFloat != 0:
			return F64{}
		case u.Info()&types.IsString != 0:
			return Str{}
		case u.Kind() == types.UnsafePointer:
			return (*Value)(nil)
		case u.Kind() == types.UntypedNil:
			return nil
		}
		panic(fmt.Sprintf("zero: basic %v", u))
	case *types.Pointer:
		return (*Value)(nil)
	case *types.Struct:
		s := make(Struct, u.NumFields())
		for i := range s {
			s[i] = zero(u.Field(i).Type())
		}
		return s
	case *types.Array:
		a := make(Array, u.Len())
		for i := range a {
			a[i] = zero(u.Elem())
		}
		return a
	case *types.Slice:
		return Slice(nil)
	case *types.Map:
		return (*MapV)(nil)
	case *types.Chan:
		return (*Chan)(nil)
	case *types.Signature:
		return (*Closure)(nil)
	case *types.Interface:
		return Iface{}
	case *types.Tuple:
		tp := make(Tuple, u.Len())
		for i := range tp {
			tp[i] = zero(u.At(i).Type())
		}
		return tp
	case *types.TypeParam:
		panic("zero of type parameter (generic body not instantiated)")
	}
	panic(fmt.Sprintf("zero: %T %v", t, t))
}

func copyVal(v Value) Value {
	switch v := v.(type) {
	case Struct:
		n := make(Struct, len(v))
		for i := range v {
			n[i] = copyVal(v[i])
		}
		return n
	case Array:
		n := make(Array, len(v))
		for i := range v {
			n[i] = copyVal(v[i])
		}
		return n
	case Tuple:
		n := make(Tuple, len(v))
		for i := range v {
			n[i] = copyVal(v[i])
		}
		return n
	}
	return v
}

func load(p *Value) Value { return copyVal(*p) }

func store(p *Value, v Value) {
	switch cur := (*p).(type) {
	case Struct:
		if nv, ok := v.(Struct); ok && len(nv) == len(cur) {
			for i := range cur {
				store(&cur[i], nv[i])
			}
			return
		}
	case Array:
		if nv, ok := v.(Array); ok && len(nv) == len(cur) {
			for i := range cur {
				store(&cur[i], nv[i])
			}
			return
		}
	}
	*p = copyVal(v)
}

// ---------- equality ----------

// eqVals returns the condition x == y for comparable Go values.
// g is needed for reporting unknowns.
func eqVals(g *G, x, y Value) Bool {
	switch a := x.(type) {
	case nil:
		return Bool{C: y == nil}
	case Int:
		b := y.(Int)
		if a.T == nil && b.T == nil {
			return Bool{C: a.C == b.C}
		}
		w := 64
		if a.T != nil {
			w = a.T.W
		} else {
			w = b.T.W
		}
		return mkBool(Eq(a.Term(w), b.Term(w)))
	case Bool:
		b := y.(Bool)
		if a.T == nil && b.T == nil {
			return Bool{C: a.C == b.C}
		}
		return mkBool(Eq(a.Term(), b.Term()))
	case F64:
		b := y.(F64)
		if a.T == nil && b.T == nil {
			return Bool{C: a.C == b.C}
		}
		return mkBool(FPCmp("fp.eq", a.Term(), b.Term()))
	case Str:
		b, ok := y.(Str)
		if !ok {
			return Bool{C: false}
		}
		r, unk := strEq(a, b)
		if unk {
			g.inconclusive("comparison of opaque strings: " + a.String() + " vs " + b.String())
		}
		return r
	case *Value:
		b, ok := y.(*Value)
		return Bool{C: ok && a == b}
	case *MapV:
		b, ok := y.(*MapV)
		return Bool{C: ok && a == b}
	case *Chan:
		b, ok := y.(*Chan)
		return Bool{C: ok && a == b}
	case *Closure:
		b, ok := y.(*Closure)
		return Bool{C: ok && a == b}
	case Struct:
		b := y.(Struct)
		return eqSeq(g, a, b)
	case Array:
		b := y.(Array)
		return eqSeq(g, a, b)
	case Iface:
		b, ok := y.(Iface)
		if !ok {
			return Bool{C: false}
		}
		if a.T == nil || b.T == nil {
			return Bool{C: a.T == nil && b.T == nil}
		}
		if !types.Identical(a.T, b.T) {
			return Bool{C: false}
		}
		if !types.Comparable(a.T) {
			g.goPanic("runtime error: comparing uncomparable type " + a.T.String())
		}
		return eqVals(g, a.V, b.V)
	case *RType:
		b, ok := y.(*RType)
		return Bool{C: ok && types.Identical(a.T, b.T)}
	case Slice:
		// only slice == nil reaches here via BinOp with nil const
		b, _ := y.(Slice)
		return Bool{C: a == nil && b == nil}
	case Eqer:
		return Bool{C: a.EqualTo(y)}
	}
	if x == y {
		return Bool{C: true}
	}
	return Bool{C: false}
}

type Eqer interface{ EqualTo(Value) bool }

func eqSeq(g *G, a, b []Value) Bool {
	if len(a) != len(b) {
		return Bool{C: false}
	}
	c := TrueT
	for i := range a {
		e := eqVals(g, a[i], b[i])
		c = And(c, e.Term())
		if c.IsConst() && !c.B {
			return Bool{C: false}
		}
	}
	return mkBool(c)
}

// ---------- printing (debug, evidence samples) ----------

func showVal(v Value) string {
	switch v := v.(type) {
	case nil:
		return "nil"
	case Int:
		if v.T != nil {
			return v.T.Key()
		}
		return fmt.Sprint(int64(v.C))
	case Bool:
		if v.T != nil {
			return v.T.Key()
		}
		return fmt.Sprint(v.C)
	case F64:
		if v.T != nil {
			return v.T.Key()
		}
		return fmt.Sprint(v.C)
	case Str:
		return v.String()
	case *Value:
		if v == nil {
			return "nil"
		}
		return "&" + showVal(*v)
	case Struct:
		return "{" + showSeq(v) + "}"
	case Array:
		return "[" + showSeq(v) + "]"
	case Slice:
		if v == nil {
			return "[]nil"
		}
		return "[]{" + showSeq(v) + "}"
	case Tuple:
		return "(" + showSeq(v) + ")"
	case Iface:
		if v.T == nil {
			return "nil"
		}
		return v.T.String() + ":" + showVal(v.V)
	case *MapV:
		if v == nil {
			return "map nil"
		}
		var parts []string
		for i := range v.Keys {
			parts = append(parts, showVal(v.Keys[i])+":"+showVal(v.Vals[i]))
		}
		sort.Strings(parts)
		return "map[" + strings.Join(parts, " ") + "]"
	case *Closure:
		if v == nil {
			return "func nil"
		}
		if v.Fn != nil {
			return "func " + v.Fn.String()
		}
		return "func " + v.Name
	case fmt.Stringer:
		return v.String()
	}
	return fmt.Sprintf("%T", v)
}

func showSeq(vs []Value) string {
	var parts []string
	for _, x := range vs {
		parts = append(parts, showVal(x))
	}
	return strings.Join(parts, ", ")
}

func f64bits(f float64) uint64 { return math.Float64bits(f) }
