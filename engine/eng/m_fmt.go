package eng

// fmt / errors / xerrors models.

import (
	"fmt"
	"go/token"
	"go/types"
	"strconv"
	"strings"

	"golang.org/x/tools/go/ssa"
)

// error objects built by the models: *fmt.wrapError{msg, err}
func (g *G) mkError(msg Str, wrapped Value) Value {
	t := g.run.P.NamedType("fmt", "wrapError")
	p := new(Value)
	w, _ := wrapped.(Iface)
	*p = Struct{msg, w}
	return Iface{T: types.NewPointer(t), V: p}
}

func (g *G) findMethod(t types.Type, name string) *ssa.Function {
	ms := g.run.P.Prog.MethodSets.MethodSet(t)
	for i := 0; i < ms.Len(); i++ {
		if ms.At(i).Obj().Name() == name {
			return g.run.P.Prog.MethodValue(ms.At(i))
		}
	}
	return nil
}

// errorString calls err.Error() through the interpreter.
func (g *G) errorString(e Iface) Str {
	if e.T == nil {
		return S("<nil>")
	}
	fn := g.findMethod(e.T, "Error")
	if fn == nil {
		panic("errorString: no Error method on " + e.T.String())
	}
	return g.callFn(&Closure{Fn: fn}, []Value{e.V}, g.top, token.NoPos).(Str)
}

func (g *G) implementsError(t types.Type) bool {
	return t != nil && g.findMethodSig(t, "Error", "func() string")
}

func (g *G) findMethodSig(t types.Type, name, sig string) bool {
	ms := g.run.P.Prog.MethodSets.MethodSet(t)
	for i := 0; i < ms.Len(); i++ {
		if ms.At(i).Obj().Name() == name {
			return types.TypeString(ms.At(i).Type(), nil) == sig
		}
	}
	return false
}

func (g *G) unwrapErr(e Iface) Iface {
	if e.T == nil {
		return Iface{}
	}
	if !g.findMethodSig(e.T, "Unwrap", "func() error") {
		return Iface{}
	}
	fn := g.findMethod(e.T, "Unwrap")
	r, _ := g.callFn(&Closure{Fn: fn}, []Value{e.V}, g.top, token.NoPos).(Iface)
	return r
}

// formatArg renders one operand for verb.
func (g *G) formatArg(verb byte, flags string, a Value) Str {
	x, _ := a.(Iface)
	if verb == 'T' {
		if x.T == nil {
			return S("<nil>")
		}
		return S(typeString(x.T))
	}
	if x.T == nil {
		if verb == 'v' {
			return S("<nil>")
		}
		return S("%!" + string(verb) + "(<nil>)")
	}
	if verb == 'w' {
		verb = 'v'
	}
	// error / Stringer take precedence for %s %v %q
	if verb == 's' || verb == 'v' || verb == 'q' {
		if g.implementsError(x.T) {
			if p, ok := x.V.(*Value); ok && p == nil {
				if _, isPtr := under(x.T).(*types.Pointer); isPtr {
					// calling Error on a nil pointer may panic; fmt catches it
					return S("<nil>")
				}
			}
			efn := g.findMethod(x.T, "Error")
			s, ok := g.callCatch(&Closure{Fn: efn}, []Value{x.V})
			if !ok {
				return S("%!" + string(verb) + "(PANIC=Error method)")
			}
			if verb == 'q' {
				return g.quoteStr(s)
			}
			return s
		}
		if g.findMethodSig(x.T, "String", "func() string") {
			fn := g.findMethod(x.T, "String")
			s, ok := g.callCatch(&Closure{Fn: fn}, []Value{x.V})
			if !ok {
				// fmt's catchPanic: a nil receiver prints <nil>, otherwise the panic is reported in-line
				if p, isP := x.V.(*Value); isP && p == nil {
					return S("<nil>")
				}
				return S("%!" + string(verb) + "(PANIC=String method)")
			}
			if verb == 'q' {
				return g.quoteStr(s)
			}
			return s
		}
	}
	switch v := x.V.(type) {
	case Str:
		switch verb {
		case 's', 'v':
			return v
		case 'q':
			return g.quoteStr(v)
		}
		if v.IsConc() {
			return S(fmt.Sprintf("%"+flags+string(verb), v.C))
		}
	case Int:
		w, signed, _ := intWidth(x.T)
		if v.T != nil {
			switch verb {
			case 'd', 'v':
				if signed {
					return Str{Segs: []Seg{{Q: "itoa_s(" + SignExt(v.T, 64).Key() + ")"}}}
				}
				return Str{Segs: []Seg{{Q: "itoa_u(" + ZeroExt(v.T, 64).Key() + ")"}}}
			}
			return Str{Segs: []Seg{{Q: "fmt_" + string(verb) + "(" + v.T.Key() + ")"}}}
		}
		if signed {
			return S(fmt.Sprintf("%"+flags+string(verb), sext(v.C, w)))
		}
		return S(fmt.Sprintf("%"+flags+string(verb), v.C))
	case Bool:
		b := g.branch(v)
		return S(fmt.Sprintf("%"+flags+string(verb), b))
	case F64:
		if v.T != nil {
			return Str{Segs: []Seg{{Q: "ftoa(" + v.T.Key() + ")"}}}
		}
		return S(fmt.Sprintf("%"+flags+string(verb), v.C))
	}
	// %s / %q / %x of a byte slice: the bytes themselves
	if verb == 's' || verb == 'q' {
		isBytes := false
		if sl, ok := under(x.T).(*types.Slice); ok {
			if b, ok := under(sl.Elem()).(*types.Basic); ok && b.Kind() == types.Uint8 {
				isBytes = true
			}
		}
		if isBytes {
			var str Str
			switch v := x.V.(type) {
			case *Blob:
				str = v.ToStr(g)
			case Slice:
				str = blobFromSlice(g, v).ToStr(g)
			case nil:
				str = S("")
			default:
				isBytes = false
			}
			if isBytes {
				if verb == 'q' {
					return g.quoteStr(str)
				}
				return str
			}
		}
	}
	// composite / pointer values: deterministic but not byte-faithful
	g.model("fmt: %v of composite values rendered as an opaque token")
	return Str{Segs: []Seg{{Q: "fmtv(" + showVal(x.V) + ")"}}}
}

func (g *G) quoteStr(s Str) Str {
	if s.IsConc() {
		return S(strconv.Quote(s.C))
	}
	if _, ok := s.Bytes(); ok {
		// concrete text and symbolic bytes: Go quoting byte by byte (differs from JSON quoting
		// for control characters and bytes >= 0x7f)
		return strFromBytes(g.goQuoteBytes(s))
	}
	return Str{Segs: []Seg{{Q: "quote(" + s.String() + ")"}}}
}

// sprintf returns the formatted string and the operand of the first %w (if any).
func (g *G) sprintf(format string, args []Value) (Str, Value) {
	var out Str
	var wrapped Value
	ai := 0
	for i := 0; i < len(format); {
		c := format[i]
		if c != '%' {
			j := strings.IndexByte(format[i:], '%')
			if j < 0 {
				j = len(format) - i
			}
			out = strConcat(out, S(format[i:i+j]))
			i += j
			continue
		}
		i++
		if i >= len(format) {
			out = strConcat(out, S("%!(NOVERB)"))
			break
		}
		st := i
		for i < len(format) && strings.IndexByte("+-# 0123456789.", format[i]) >= 0 {
			i++
		}
		if i >= len(format) {
			out = strConcat(out, S("%!(NOVERB)"))
			break
		}
		flags := format[st:i]
		verb := format[i]
		i++
		if verb == '%' {
			out = strConcat(out, S("%"))
			continue
		}
		if ai >= len(args) {
			out = strConcat(out, S("%!"+string(verb)+"(MISSING)"))
			continue
		}
		a := args[ai]
		ai++
		if verb == 'w' && wrapped == nil {
			wrapped = a
		}
		out = strConcat(out, g.formatArg(verb, flags, a))
	}
	if ai < len(args) {
		out = strConcat(out, S("%!(EXTRA ...)"))
	}
	return out, wrapped
}

func (g *G) sprint(args []Value, ln bool) Str {
	var out Str
	for i, a := range args {
		if i > 0 && ln {
			out = strConcat(out, S(" "))
		}
		out = strConcat(out, g.formatArg('v', "", a))
	}
	if ln {
		out = strConcat(out, S("\n"))
	}
	return out
}

func sliceArgs(v Value) []Value {
	s, _ := v.(Slice)
	return []Value(s)
}

func init() {
	errorf := func(g *G, fr *Frame, fn *ssa.Function, a []Value) Value {
		msg, w := g.sprintf(concStr(g, a[0]), sliceArgs(a[1]))
		if wi, ok := w.(Iface); ok && wi.T != nil && g.implementsError(wi.T) {
			return g.mkError(msg, wi)
		}
		return g.mkError(msg, Iface{})
	}
	reg("fmt.Errorf", errorf)
	reg("golang.org/x/xerrors.Errorf", errorf)
	reg("golang.org/x/xerrors.New", func(g *G, fr *Frame, fn *ssa.Function, a []Value) Value {
		return g.mkError(a[0].(Str), Iface{})
	})
	reg("fmt.Sprintf", func(g *G, fr *Frame, fn *ssa.Function, a []Value) Value {
		s, _ := g.sprintf(concStr(g, a[0]), sliceArgs(a[1]))
		return s
	})
	reg("fmt.Sprint", func(g *G, fr *Frame, fn *ssa.Function, a []Value) Value { return g.sprint(sliceArgs(a[0]), false) })
	reg("fmt.Sprintln", func(g *G, fr *Frame, fn *ssa.Function, a []Value) Value { return g.sprint(sliceArgs(a[0]), true) })
	for _, n := range []string{"fmt.Println", "fmt.Printf", "fmt.Print"} {
		reg(n, func(g *G, fr *Frame, fn *ssa.Function, a []Value) Value { return Tuple{Int{}, Iface{}} })
	}
	reg("fmt.Fprintf", func(g *G, fr *Frame, fn *ssa.Function, a []Value) Value {
		s, _ := g.sprintf(concStr(g, a[1]), sliceArgs(a[2]))
		return g.writeTo(a[0].(Iface), g.strToBytes(s))
	})
	reg("fmt.Fprint", func(g *G, fr *Frame, fn *ssa.Function, a []Value) Value {
		return g.writeTo(a[0].(Iface), g.strToBytes(g.sprint(sliceArgs(a[1]), false)))
	})
	reg("fmt.Fprintln", func(g *G, fr *Frame, fn *ssa.Function, a []Value) Value {
		return g.writeTo(a[0].(Iface), g.strToBytes(g.sprint(sliceArgs(a[1]), true)))
	})
	reg("(*fmt.wrapError).Error", func(g *G, fr *Frame, fn *ssa.Function, a []Value) Value {
		return (*a[0].(*Value)).(Struct)[0]
	})
	reg("(*fmt.wrapError).Unwrap", func(g *G, fr *Frame, fn *ssa.Function, a []Value) Value {
		return (*a[0].(*Value)).(Struct)[1]
	})
	reg("(runtime.errorString).Error", func(g *G, fr *Frame, fn *ssa.Function, a []Value) Value {
		return strConcat(S("runtime error: "), a[0].(Str))
	})
	reg("(*runtime.PanicNilError).Error", func(g *G, fr *Frame, fn *ssa.Function, a []Value) Value {
		return S("panic called with nil argument (obsolete and disabled by GODEBUG=panicnil=1)")
	})
	reg("(*runtime.PanicNilError).RuntimeError", func(g *G, fr *Frame, fn *ssa.Function, a []Value) Value { return nil })
	reg("(runtime.plainError).Error", func(g *G, fr *Frame, fn *ssa.Function, a []Value) Value { return a[0] })
	reg("(runtime.errorString).RuntimeError", func(g *G, fr *Frame, fn *ssa.Function, a []Value) Value { return nil })
	reg("(runtime.plainError).RuntimeError", func(g *G, fr *Frame, fn *ssa.Function, a []Value) Value { return nil })

	reg("errors.Unwrap", func(g *G, fr *Frame, fn *ssa.Function, a []Value) Value { return g.unwrapErr(a[0].(Iface)) })
	reg("errors.Is", func(g *G, fr *Frame, fn *ssa.Function, a []Value) Value {
		e, target := a[0].(Iface), a[1].(Iface)
		for n := 0; e.T != nil && n < 64; n++ {
			if types.Comparable(e.T) && target.T != nil && types.Identical(e.T, target.T) {
				if g.branch(eqVals(g, e, target)) {
					return Bool{C: true}
				}
			}
			if g.findMethodSig(e.T, "Is", "func(error) bool") {
				fnm := g.findMethod(e.T, "Is")
				if g.branch(g.callFn(&Closure{Fn: fnm}, []Value{e.V, target}, g.top, token.NoPos).(Bool)) {
					return Bool{C: true}
				}
			}
			e = g.unwrapErr(e)
		}
		return Bool{C: target.T == nil && e.T == nil}
	})
	reg("errors.As", func(g *G, fr *Frame, fn *ssa.Function, a []Value) Value {
		e, target := a[0].(Iface), a[1].(Iface)
		if target.T == nil {
			g.goPanicPlain("errors: target cannot be nil")
		}
		pt, ok := under(target.T).(*types.Pointer)
		if !ok {
			g.goPanicPlain("errors: target must be a non-nil pointer")
		}
		tt := pt.Elem()
		for n := 0; e.T != nil && n < 64; n++ {
			if it, isI := under(tt).(*types.Interface); isI {
				if types.Implements(e.T, it) {
					store(target.V.(*Value), e)
					return Bool{C: true}
				}
			} else if types.Identical(e.T, tt) {
				store(target.V.(*Value), e.V)
				return Bool{C: true}
			}
			e = g.unwrapErr(e)
		}
		return Bool{C: false}
	})
	reg("strconv.Itoa", func(g *G, fr *Frame, fn *ssa.Function, a []Value) Value {
		v := a[0].(Int)
		if v.T != nil {
			return Str{Segs: []Seg{{Q: "itoa_s(" + v.T.Key() + ")"}}}
		}
		return S(strconv.Itoa(int(int64(v.C))))
	})
}

func (g *G) strToBytes(s Str) Value {
	return g.conv(types.NewSlice(types.Typ[types.Uint8]), types.Typ[types.String], s)
}

// writeTo calls w.Write(p) through dynamic dispatch.
func (g *G) writeTo(w Iface, p Value) Value {
	if w.T == nil {
		g.goPanic("runtime error: invalid memory address or nil pointer dereference")
	}
	fn := g.findMethod(w.T, "Write")
	if fn == nil {
		panic("writeTo: no Write on " + w.T.String())
	}
	return g.callFn(&Closure{Fn: fn}, []Value{w.V, p}, g.top, token.NoPos)
}

// callCatch calls a String/Error method the way fmt does: a panic inside it is caught.
func (g *G) callCatch(cl *Closure, args []Value) (res Str, ok bool) {
	defer func() {
		if p := recover(); p != nil {
			if _, isTP := p.(targetPanic); isTP {
				ok = false
				return
			}
			panic(p)
		}
	}()
	return g.callFn(cl, args, g.top, token.NoPos).(Str), true
}
