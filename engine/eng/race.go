package eng

// Happens-before race monitor (vector clocks) for selected cells, and a lockset
// check for connection writes. Happens-before edges: goroutine start, channel
// send/close -> receive, mutex unlock -> lock, Once, WaitGroup, context cancel ->
// Done. Channel clocks are joined per channel (not per message), which can only
// add edges: races may be missed, never invented.

import (
	"fmt"
	"sort"
	"strings"
)

type VC map[int]int

func (v VC) join(o VC) {
	for k, x := range o {
		if x > v[k] {
			v[k] = x
		}
	}
}

func (v VC) copy() VC {
	n := VC{}
	for k, x := range v {
		n[k] = x
	}
	return n
}

// leq: v happens-before-or-equals o
func (v VC) leq(o VC) bool {
	for k, x := range v {
		if x > o[k] {
			return false
		}
	}
	return true
}

type access struct {
	g     int
	write bool
	vc    VC
	where string
	locks []int
}

type watchCell struct {
	name    string
	history []access
}

func (g *G) vcTick() {
	if g.vc == nil {
		g.vc = VC{}
	}
	g.vc[g.id]++
}

// release: g publishes its clock into obj
func (g *G) hbRelease(obj interface{}) {
	r := g.run
	if !r.raceOn {
		return
	}
	g.vcTick()
	c := r.objVC[obj]
	if c == nil {
		c = VC{}
		r.objVC[obj] = c
	}
	c.join(g.vc)
}

// acquire: g learns what obj has seen
func (g *G) hbAcquire(obj interface{}) {
	r := g.run
	if !r.raceOn {
		return
	}
	if g.vc == nil {
		g.vc = VC{}
	}
	if c := r.objVC[obj]; c != nil {
		g.vc.join(c)
	}
}

func (g *G) heldLockIDs() []int {
	var out []int
	for _, m := range g.held {
		out = append(out, m.id)
	}
	sort.Ints(out)
	return out
}

func (r *Run) recordAccess(g *G, p *Value, write bool) {
	w := r.watch[p]
	if w == nil {
		return
	}
	if g.vc == nil {
		g.vc = VC{}
	}
	a := access{g: g.id, write: write, vc: g.vc.copy(), where: g.whereShort(), locks: g.heldLockIDs()}
	for _, old := range w.history {
		if old.g == a.g || (!old.write && !a.write) {
			continue
		}
		if old.vc.leq(a.vc) {
			continue
		}
		// unordered conflicting pair
		key := w.name + ": " + kindOf2(old.write) + " at " + old.where + " || " + kindOf2(a.write) + " at " + a.where
		if !r.raceSeen[key] {
			r.raceSeen[key] = true
			r.races = append(r.races, key)
		}
	}
	if len(w.history) < 64 {
		w.history = append(w.history, a)
	}
}

func kindOf2(w bool) string {
	if w {
		return "write"
	}
	return "read"
}

func (g *G) whereShort() string {
	fr := g.top
	for f := fr; f != nil; f = f.caller {
		if f.fn != nil && isModulePkg(fnPkgPath(f.fn)) {
			return fmt.Sprintf("%s:%s", f.fn.Name(), posLine(g.run.P, f.pos))
		}
	}
	return "?"
}

// ---- lockset for connection writes ----

func (r *Run) recordConnWrite(g *G, e *WSEnd, what string) {
	if e.rawPeer {
		return
	}
	held := g.heldLockIDs()
	if !e.locksetInit {
		e.locksetInit = true
		e.lockset = held
	} else {
		var inter []int
		for _, a := range e.lockset {
			for _, b := range held {
				if a == b {
					inter = append(inter, a)
				}
			}
		}
		e.lockset = inter
	}
	if len(held) == 0 {
		e.unlockedWrites = append(e.unlockedWrites, what+" at "+g.whereShort())
	}
}

func (r *Run) unlockedWriteReport() []string {
	var out []string
	for _, p := range r.env.pairs {
		for _, e := range []*WSEnd{p.client, p.server} {
			if e.rawPeer {
				continue
			}
			for _, w := range e.unlockedWrites {
				out = append(out, e.String()+": "+w)
			}
			if e.locksetInit && len(e.lockset) == 0 && len(e.unlockedWrites) == 0 {
				out = append(out, e.String()+": writers share no common lock")
			}
		}
	}
	return out
}

func init() {
	regV("Races", func(g *G, a []Value) Value {
		for _, k := range g.run.races {
			g.run.obs = append(g.run.obs, "RACE "+k)
		}
		return I64(int64(len(g.run.races)))
	})
	regV("RaceDesc", func(g *G, a []Value) Value { return S(strings.Join(g.run.races, " ;; ")) })
	regV("UnlockedWrites", func(g *G, a []Value) Value {
		rep := g.run.unlockedWriteReport()
		for _, k := range rep {
			g.run.obs = append(g.run.obs, "UNLOCKED-WRITE "+k)
		}
		return I64(int64(len(rep)))
	})
	regV("UnlockedWriteDesc", func(g *G, a []Value) Value {
		return S(strings.Join(g.run.unlockedWriteReport(), " ;; "))
	})
}
