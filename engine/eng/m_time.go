package eng

// Model of package time: no time passes unless the environment says so. Timers
// are objects whose firing is an optional environment event (budget Bounds.Timers).

import (
	"go/types"

	"golang.org/x/tools/go/ssa"
)

func (g *G) timeVal(ext Value) Value {
	t := g.run.P.NamedType("time", "Time")
	return g.mkStruct(t, map[string]Value{"ext": ext})
}

func timeExt(g *G, v Value) Int {
	t := g.run.P.NamedType("time", "Time")
	return fieldByName(t, v.(Struct), "ext").(Int)
}

func (r *Run) timerAt(p *Value) *Timer {
	for _, t := range r.env.timers {
		if t.cell == p {
			return t
		}
	}
	return nil
}

func init() {
	reg("time.Now", func(g *G, fr *Frame, fn *ssa.Function, a []Value) Value {
		return g.timeVal(Int{C: uint64(g.run.clock)})
	})
	reg("time.Since", func(g *G, fr *Frame, fn *ssa.Function, a []Value) Value {
		return mkInt(BVBin("bvsub", BVConst(uint64(g.run.clock), 64), timeExt(g, a[0]).Term(64)))
	})
	reg("(time.Time).Add", func(g *G, fr *Frame, fn *ssa.Function, a []Value) Value {
		return g.timeVal(mkInt(BVBin("bvadd", timeExt(g, a[0]).Term(64), a[1].(Int).Term(64))))
	})
	reg("(time.Time).Sub", func(g *G, fr *Frame, fn *ssa.Function, a []Value) Value {
		return mkInt(BVBin("bvsub", timeExt(g, a[0]).Term(64), timeExt(g, a[1]).Term(64)))
	})
	// the model's time is nanoseconds on one monotonic axis (field ext)
	reg("(time.Time).UnixNano", func(g *G, fr *Frame, fn *ssa.Function, a []Value) Value { return timeExt(g, a[0]) })
	reg("(time.Time).UnixMilli", func(g *G, fr *Frame, fn *ssa.Function, a []Value) Value {
		return mkInt(BVBin("bvsdiv", timeExt(g, a[0]).Term(64), BVConst(1000000, 64)))
	})
	reg("(time.Time).Unix", func(g *G, fr *Frame, fn *ssa.Function, a []Value) Value {
		return mkInt(BVBin("bvsdiv", timeExt(g, a[0]).Term(64), BVConst(1000000000, 64)))
	})
	reg("time.Unix", func(g *G, fr *Frame, fn *ssa.Function, a []Value) Value {
		sec, ns := a[0].(Int).Term(64), a[1].(Int).Term(64)
		return g.timeVal(mkInt(BVBin("bvadd", BVBin("bvmul", sec, BVConst(1000000000, 64)), ns)))
	})
	reg("time.UnixMilli", func(g *G, fr *Frame, fn *ssa.Function, a []Value) Value {
		return g.timeVal(mkInt(BVBin("bvmul", a[0].(Int).Term(64), BVConst(1000000, 64))))
	})
	reg("time.Until", func(g *G, fr *Frame, fn *ssa.Function, a []Value) Value {
		return mkInt(BVBin("bvsub", timeExt(g, a[0]).Term(64), BVConst(uint64(g.run.clock), 64)))
	})
	reg("(time.Time).Before", func(g *G, fr *Frame, fn *ssa.Function, a []Value) Value {
		return mkBool(BVCmp("bvslt", timeExt(g, a[0]).Term(64), timeExt(g, a[1]).Term(64)))
	})
	reg("(time.Time).After", func(g *G, fr *Frame, fn *ssa.Function, a []Value) Value {
		return mkBool(BVCmp("bvsgt", timeExt(g, a[0]).Term(64), timeExt(g, a[1]).Term(64)))
	})
	reg("(time.Time).Equal", func(g *G, fr *Frame, fn *ssa.Function, a []Value) Value {
		return mkBool(Eq(timeExt(g, a[0]).Term(64), timeExt(g, a[1]).Term(64)))
	})
	reg("(time.Time).Compare", func(g *G, fr *Frame, fn *ssa.Function, a []Value) Value {
		x, y := timeExt(g, a[0]).Term(64), timeExt(g, a[1]).Term(64)
		return mkInt(Ite(BVCmp("bvslt", x, y), BVConst(^uint64(0), 64), Ite(Eq(x, y), BVConst(0, 64), BVConst(1, 64))))
	})
	reg("(time.Time).IsZero", func(g *G, fr *Frame, fn *ssa.Function, a []Value) Value {
		return g.isZeroVal(timeExt(g, a[0]), types.Typ[types.Int64])
	})
	reg("time.Sleep", func(g *G, fr *Frame, fn *ssa.Function, a []Value) Value {
		r := g.run
		r.sleepLog = append(r.sleepLog, a[0])
		r.obs = append(r.obs, "sleep "+showVal(a[0]))
		g.schedPoint(&Op{desc: "sleep", enabled: func() bool { return true }, isSleep: true})
		return nil
	})
	newTimer := func(g *G, d Value) *Value {
		t := g.run.env.newTimer(d, true)
		tt := g.run.P.NamedType("time", "Timer")
		p := new(Value)
		*p = g.mkStruct(tt, map[string]Value{"C": t.ch})
		t.cell = p
		return p
	}
	reg("time.NewTimer", func(g *G, fr *Frame, fn *ssa.Function, a []Value) Value {
		g.schedPoint(&Op{desc: "newtimer", enabled: func() bool { return true }})
		return newTimer(g, a[0])
	})
	reg("time.After", func(g *G, fr *Frame, fn *ssa.Function, a []Value) Value {
		g.schedPoint(&Op{desc: "time.After", enabled: func() bool { return true }})
		p := newTimer(g, a[0])
		g.run.timerAt(p).viaAfter = true
		return g.run.timerAt(p).ch
	})
	reg("(*time.Timer).Stop", func(g *G, fr *Frame, fn *ssa.Function, a []Value) Value {
		t := g.run.timerAt(a[0].(*Value))
		if t == nil {
			g.goPanicPlain("time: Stop called on uninitialized Timer")
		}
		g.schedPoint(&Op{desc: "timer.Stop", obj: t, enabled: func() bool { return true }})
		was := t.armed
		t.armed = false
		return Bool{C: was}
	})
	reg("(*time.Timer).Reset", func(g *G, fr *Frame, fn *ssa.Function, a []Value) Value {
		t := g.run.timerAt(a[0].(*Value))
		if t == nil {
			g.goPanicPlain("time: Reset called on uninitialized Timer")
		}
		g.schedPoint(&Op{desc: "timer.Reset", obj: t, enabled: func() bool { return true }})
		was := t.armed
		t.armed = true
		t.dur = a[1]
		t.resets = append(t.resets, a[1])
		return Bool{C: was}
	})
	reg("time.NewTicker", func(g *G, fr *Frame, fn *ssa.Function, a []Value) Value {
		t := g.run.env.newTimer(a[0], true)
		t.ticker = true
		tt := g.run.P.NamedType("time", "Ticker")
		p := new(Value)
		*p = g.mkStruct(tt, map[string]Value{"C": t.ch})
		t.cell = p
		return p
	})
	reg("(*time.Ticker).Stop", func(g *G, fr *Frame, fn *ssa.Function, a []Value) Value {
		if t := g.run.timerAt(a[0].(*Value)); t != nil {
			t.armed = false
		}
		return nil
	})
	reg("(time.Duration).String", func(g *G, fr *Frame, fn *ssa.Function, a []Value) Value {
		return Str{Segs: []Seg{{Q: "dur(" + showVal(a[0]) + ")"}}}
	})
}

func init() {
	// engine-only observations of the timer model (natively they return nothing)
	regV("TimerDurations", func(g *G, a []Value) Value {
		var out Slice
		for _, t := range g.run.env.timers {
			if len(t.resets) == 0 {
				out = append(out, t.durFirst)
			}
			for _, d := range t.resets {
				out = append(out, d)
			}
			if len(t.resets) > 0 {
				out = append(out, t.durFirst)
			}
		}
		return out
	})
	regV("ReadDeadlines", func(g *G, a []Value) Value {
		var out Slice
		for _, p := range g.run.env.pairs {
			for _, e := range []*WSEnd{p.client, p.server} {
				for _, d := range e.deadlines {
					out = append(out, d)
				}
			}
		}
		return out
	})
	regV("RedialsWithoutBackoff", func(g *G, a []Value) Value { return I64(int64(g.run.env.unbackedDials)) })
	regV("ReadsWithoutDeadline", func(g *G, a []Value) Value { return I64(int64(g.run.readsWithoutDeadline)) })
	regV("TimersFired", func(g *G, a []Value) Value { return I64(int64(g.run.timersFired)) })
}
