package eng

import (
	"fmt"
	"math"
	"runtime"
	"sort"
	"sync"
	"time"

	"golang.org/x/tools/go/ssa"
)

func runtimeStack(b []byte) int    { return runtime.Stack(b, false) }
func float64frombits(b uint64) float64 { return math.Float64frombits(b) }
func negZero() float64             { return math.Copysign(0, -1) }
func inf(s int) float64            { return math.Inf(s) }
func nan() float64                 { return math.NaN() }

type Explorer struct {
	P       *Program
	Entry   *ssa.Function
	B       Bounds
	Solver  string
	Workers int
	Seed    int64

	mu       sync.Mutex
	stack    [][]Decision
	active   int
	cond     *sync.Cond
	cache    map[string]SatResult
	deadline time.Time
	stop     bool

	// results
	Paths        int
	Infeasible   int
	Decisions    int
	Steps        int
	Asserts      int
	AssertsSMT   int
	Violations   []*Violation
	Inconclusive []string
	Reached      map[string]int
	Fns          map[*ssa.Function]bool
	Models       map[string]bool
	Unknowns     int
	fpAlt        bool
	NoFPFallback bool
	UnknownMsgs  map[string]int
	Samples      []PathSample
	SolverStats  map[string]*SolverStat
	Budget       bool
	MaxPreempt   int
	Crashes      int
	violSeen     map[string]bool
	WitnessEvery int
	Witnesses    []map[string]interface{}
	witnessSeen  int
}

type SolverStat struct {
	Queries, Sat, Unsat, Unknown int
	Seconds                      float64
}

type PathSample struct {
	Decisions []string `json:"decisions"`
	PC        []string `json:"path_condition"`
	Outcome   string   `json:"outcome"`
	Obs       []string `json:"observations,omitempty"`
}

type Worker struct {
	ex     *Explorer
	solver *Solver
	alt    *Solver // cvc5 beside a z3 primary, started on the first FP fallback
	id     int
}

func (ex *Explorer) fpAltOn() bool {
	ex.mu.Lock()
	defer ex.mu.Unlock()
	return ex.fpAlt
}

func (ex *Explorer) setFPAlt() {
	ex.mu.Lock()
	ex.fpAlt = true
	ex.mu.Unlock()
}

func (ex *Explorer) push(p []Decision) {
	ex.mu.Lock()
	ex.stack = append(ex.stack, p)
	ex.mu.Unlock()
	ex.cond.Signal()
}

func (ex *Explorer) pop() ([]Decision, bool) {
	ex.mu.Lock()
	defer ex.mu.Unlock()
	for {
		if ex.stop {
			return nil, false
		}
		if n := len(ex.stack); n > 0 {
			p := ex.stack[n-1]
			ex.stack = ex.stack[:n-1]
			ex.active++
			return p, true
		}
		if ex.active == 0 {
			ex.cond.Broadcast()
			return nil, false
		}
		ex.cond.Wait()
	}
}

func (ex *Explorer) doneOne() {
	ex.mu.Lock()
	ex.active--
	if ex.active == 0 && len(ex.stack) == 0 {
		ex.cond.Broadcast()
	}
	ex.mu.Unlock()
}

func (ex *Explorer) cacheGet(k string) (SatResult, bool) {
	ex.mu.Lock()
	v, ok := ex.cache[k]
	ex.mu.Unlock()
	return v, ok
}

func (ex *Explorer) cachePut(k string, v SatResult) {
	ex.mu.Lock()
	ex.cache[k] = v
	ex.mu.Unlock()
}

func (ex *Explorer) noteUnknown(msg string) {
	ex.mu.Lock()
	ex.Unknowns++
	if ex.UnknownMsgs == nil {
		ex.UnknownMsgs = map[string]int{}
	}
	ex.UnknownMsgs[msg]++
	ex.mu.Unlock()
}

func (ex *Explorer) expired() bool {
	return !ex.deadline.IsZero() && time.Now().After(ex.deadline)
}

// Explore runs the whole decision tree of Entry.
func (ex *Explorer) Explore() error {
	ex.cond = sync.NewCond(&ex.mu)
	ex.cache = map[string]SatResult{}
	ex.Reached = map[string]int{}
	ex.Fns = map[*ssa.Function]bool{}
	ex.Models = map[string]bool{}
	ex.SolverStats = map[string]*SolverStat{}
	ex.violSeen = map[string]bool{}
	if ex.B.DeadlineS > 0 {
		ex.deadline = time.Now().Add(time.Duration(ex.B.DeadlineS) * time.Second)
	}
	if ex.Workers <= 0 {
		ex.Workers = 1
	}
	ex.stack = [][]Decision{nil}
	var wg sync.WaitGroup
	errs := make(chan error, ex.Workers)
	for i := 0; i < ex.Workers; i++ {
		s, err := NewSolver(ex.Solver, ex.B.SolverMs)
		if err != nil {
			return err
		}
		w := &Worker{ex: ex, solver: s, id: i}
		wg.Add(1)
		go func() {
			defer wg.Done()
			defer s.Close()
			for {
				p, ok := ex.pop()
				if !ok {
					break
				}
				w.runPath(p)
				ex.doneOne()
			}
			ex.mu.Lock()
			for _, s := range []*Solver{s, w.alt} {
				if s == nil {
					continue
				}
				name := s.Kind
				if s == w.alt {
					name += " (fp fallback)"
					s.Close()
				}
				st := ex.SolverStats[name]
				if st == nil {
					st = &SolverStat{}
					ex.SolverStats[name] = st
				}
				st.Queries += s.Queries
				st.Sat += s.NSat
				st.Unsat += s.NUnsat
				st.Unknown += s.NUnknown
				st.Seconds += s.Time.Seconds()
			}
			ex.mu.Unlock()
		}()
	}
	wg.Wait()
	close(errs)
	return nil
}

func (w *Worker) runPath(prefix []Decision) {
	ex := w.ex
	r := &Run{P: ex.P, W: w, B: &ex.B, prefix: prefix,
		globals: map[*ssa.Global]*Value{}, done: make(chan struct{}),
		mutexes: map[*Value]*Mutex{}, onces: map[*Value]*Once{}, wgs: map[*Value]*WaitGroupObj{},
		reached: map[string]bool{}, inputMeta: map[string]InputMeta{}, strInputs: map[string][]*Term{},
		fnsSeen: map[*ssa.Function]bool{}, modelsHit: map[string]bool{}}
	r.env = newEnv(r)
	r.raceOn = ex.B.Params["race"] == 1
	r.objVC = map[interface{}]VC{}
	r.watch = map[*Value]*watchCell{}
	r.raceSeen = map[string]bool{}
	r.backings = map[*Value]*Backing{}
	r.bufBacking = map[*Value]*Backing{}
	r.bufGen = map[*Value]*Backing{}
	r.bufResetPending = map[*Value]bool{}
	r.readerOrig = map[*Value]*Blob{}
	r.pools = map[*Value]*PoolObj{}
	r.atomicVals = map[*Value]*anyBox{}
	r.syncMaps = map[*Value]*MapV{}
	w.solver.Push()
	r.execute(ex.Entry)
	if r.outcome == OutOK && ex.WitnessEvery > 0 && ex.wantWitness() {
		if res, model := r.solverCheckModel(); res == Sat {
			ex.addWitness(r.decodeInputs(model))
		}
	}
	w.solver.Pop()
	if r.useAlt {
		w.alt.Pop()
	}

	ex.mu.Lock()
	defer ex.mu.Unlock()
	ex.Paths++
	ex.Decisions += len(r.trace)
	ex.Steps += r.steps
	ex.Asserts += r.asserts
	ex.AssertsSMT += r.assertsSolver
	if r.deviations > ex.MaxPreempt {
		ex.MaxPreempt = r.deviations
	}
	for f := range r.fnsSeen {
		ex.Fns[f] = true
	}
	for m := range r.modelsHit {
		ex.Models[m] = true
	}
	out := "ok"
	switch r.outcome {
	case OutOK:
		for l := range r.reached {
			ex.Reached[l]++
		}
	case OutInfeasible:
		ex.Infeasible++
		out = "infeasible"
	case OutViolation:
		out = "violation: " + r.reason
		if r.violation != nil {
			if !ex.violSeen[r.violation.Class] || len(ex.Violations) < 50 {
				ex.violSeen[r.violation.Class] = true
				ex.Violations = append(ex.Violations, r.violation)
			}
		}
	case OutInconclusive:
		out = "inconclusive: " + r.reason
		if len(ex.Inconclusive) < 50 {
			msg := r.reason
			if r.enginePanic != nil {
				msg += fmt.Sprintf("\n%v", r.enginePanic)
			}
			ex.Inconclusive = append(ex.Inconclusive, msg)
		} else {
			ex.Inconclusive = append(ex.Inconclusive[:50], "...")
		}
	}
	if ex.B.MaxPaths > 0 && ex.Paths >= ex.B.MaxPaths && (len(ex.stack) > 0) {
		ex.Budget = true
		ex.stop = true
		ex.cond.Broadcast()
	}
	if ex.expired() {
		ex.Budget = true
		ex.stop = true
		ex.cond.Broadcast()
	}
	// keep a few samples: first paths, plus any with symbolic PC
	if len(ex.Samples) < 6 || (len(r.pc) > 0 && len(ex.Samples) < 12) {
		ps := PathSample{Outcome: out, Obs: r.obs}
		if len(ps.Obs) > 12 {
			ps.Obs = ps.Obs[:12]
		}
		for _, d := range r.trace {
			ps.Decisions = append(ps.Decisions, fmt.Sprintf("%s=%d/%d", d.Kind, d.V, d.N))
		}
		for _, t := range r.pc {
			k := t.Key()
			if len(k) > 300 {
				k = k[:300] + "…"
			}
			ps.PC = append(ps.PC, k)
		}
		ex.Samples = append(ex.Samples, ps)
	}
}

// execute runs the harness entry under this run's prefix.
func (r *Run) execute(entry *ssa.Function) {
	main := r.newG("main:"+entry.Name(), false)
	r.main = main
	r.startG(main, func() {
		for _, p := range r.P.InitPkgs {
			if init := p.Func("init"); init != nil {
				main.callFn(&Closure{Fn: init}, nil, nil, 0)
			}
		}
		main.callFn(&Closure{Fn: entry}, nil, nil, 0)
		// main returned: the path is over
		main.done = true
		if r.pos < len(r.prefix) && r.outcome == OutOK {
			r.outcome = OutInconclusive
			r.reason = "forced decision prefix not consumed (nondeterministic replay)"
		}
		panic(abortRun{})
	})
	r.resumeG(main)
	<-r.done
	// wake everything that is parked so that the real goroutines exit
	for _, g := range r.gs {
		select {
		case g.resume <- struct{}{}:
		default:
		}
	}
	r.wg.Wait()
}

func (ex *Explorer) FnList() []string {
	var out []string
	for f := range ex.Fns {
		pk := fnPkgPath(f)
		if isModulePkg(pk) {
			pos := ex.P.Prog.Fset.Position(f.Pos())
			out = append(out, fmt.Sprintf("%s (%s:%d)", f.String(), shortFile(pos.Filename), pos.Line))
		}
	}
	sort.Strings(out)
	return out
}

func shortFile(f string) string {
	for i := len(f) - 1; i >= 0; i-- {
		if f[i] == '/' {
			return f[i+1:]
		}
	}
	return f
}

// a handful of passing paths are pinned (solver model of the path condition)
// and later re-run natively: translator validation of the models.
func (ex *Explorer) wantWitness() bool {
	ex.mu.Lock()
	defer ex.mu.Unlock()
	ex.witnessSeen++
	n := ex.witnessSeen
	// first 3 paths, then exponentially sparser, at most 8
	return len(ex.Witnesses) < 8 && (n <= 3 || n&(n-1) == 0)
}

func (ex *Explorer) addWitness(in map[string]interface{}) {
	ex.mu.Lock()
	if len(ex.Witnesses) < 8 {
		ex.Witnesses = append(ex.Witnesses, in)
	}
	ex.mu.Unlock()
}
