package eng

import (
	"fmt"
	"go/constant"
	"go/token"
	"go/types"
	"strings"

	"golang.org/x/tools/go/ssa"
)

// ---- control-flow payloads carried by Go panics inside the engine ----

type abortRun struct{}              // unwind everything: the path is over
type targetPanic struct{ v Value } // a Go-level panic in the interpreted program
type goexit struct{}               // runtime.Goexit

type Intrinsic func(g *G, fr *Frame, fn *ssa.Function, args []Value) Value

type deferred struct {
	cl   *Closure
	args []Value
	pos  token.Pos
}

type Frame struct {
	g         *G
	caller    *Frame
	fn        *ssa.Function
	info      *fnInfo
	env       []Value
	block     *ssa.BasicBlock
	prev      *ssa.BasicBlock
	defers    []deferred
	result    Value
	panicking bool
	panicV    interface{}
	pos       token.Pos
}

func (fr *Frame) get(v ssa.Value) Value {
	switch v := v.(type) {
	case *ssa.Const:
		return constValue(v)
	case *ssa.Global:
		return fr.g.run.global(v)
	case *ssa.Function:
		return &Closure{Fn: v}
	case *ssa.Builtin:
		return &Closure{Name: "builtin:" + v.Name()}
	}
	i, ok := fr.info.idx[v]
	if !ok {
		panic(fmt.Sprintf("get: no slot for %T %v in %v", v, v.Name(), fr.fn))
	}
	return fr.env[i]
}

func (fr *Frame) set(v ssa.Value, x Value) { fr.env[fr.info.idx[v]] = x }

func constValue(c *ssa.Const) Value {
	if c.Value == nil {
		return zero(c.Type())
	}
	t := c.Type()
	if b, ok := under(t).(*types.Basic); ok {
		switch {
		case b.Info()&types.IsBoolean != 0:
			return Bool{C: constant.BoolVal(c.Value)}
		case b.Info()&types.IsInteger != 0:
			w, signed, _ := intWidth(t)
			if signed {
				return Int{C: uint64(c.Int64()) & mask(w)}
			}
			return Int{C: c.Uint64() & mask(w)}
		case b.Info()&types.IsFloat != 0:
			return F64{C: c.Float64()}
		case b.Info()&types.IsString != 0:
			if c.Value.Kind() == constant.String {
				return S(constant.StringVal(c.Value))
			}
			return S(string(rune(c.Int64())))
		}
	}
	panic(fmt.Sprintf("constValue: %v : %v", c, t))
}

// ---- calls ----

func (g *G) callFn(cl *Closure, args []Value, caller *Frame, pos token.Pos) Value {
	if cl == nil {
		g.goPanic("runtime error: invalid memory address or nil pointer dereference (call of nil func)")
	}
	if cl.Native != nil {
		return cl.Native(g, args)
	}
	if cl.MF != nil {
		return g.callMakeFunc(cl, args, caller, pos)
	}
	fn := cl.Fn
	if fn == nil {
		switch cl.Name {
		case "builtin:close":
			g.chanClose(args[0].(*Chan))
			return nil
		case "builtin:delete":
			if m := args[0].(*MapV); m != nil {
				g.mapDelete(m, args[1])
			}
			return nil
		case "builtin:panic":
			panic(targetPanic{args[0]})
		case "builtin:print", "builtin:println":
			return nil
		case "builtin:recover":
			return g.doRecover(&Frame{caller: caller})
		}
		panic("callFn: closure without function: " + cl.Name)
	}
	r := g.run
	if in := r.P.lookupIntrinsic(fn); in != nil {
		fr := &Frame{g: g, caller: caller, fn: fn, pos: pos}
		return in(g, fr, fn, args)
	}
	pk := fnPkgPath(fn)
	if fn.Synthetic == "package initializer" {
		if !runsInit(pk) {
			return nil
		}
		return g.callSSA(fn, args, cl.Env, caller, pos)
	}
	if strings.HasPrefix(fn.Synthetic, "wrapper") || strings.HasPrefix(fn.Synthetic, "bound method") || strings.HasPrefix(fn.Synthetic, "thunk") {
		return g.callSSA(fn, args, cl.Env, caller, pos)
	}
	if isNoopPkg(pk) {
		return zeroResults(fn.Signature)
	}
	if fn.Blocks == nil {
		g.inconclusive("unmodelled external function " + fn.String())
	}
	inInit := caller != nil && caller.fn != nil && (caller.fn.Synthetic == "package initializer" || strings.HasPrefix(caller.fn.Name(), "init#")) && fnPkgPath(caller.fn) == pk
	if isDeniedPkg(pk) && !inInit && !interpretAllow[fn.String()] && !isTypedAtomicMethod(fn) {
		g.inconclusive("unmodelled call into " + fn.String())
	}
	return g.callSSA(fn, args, cl.Env, caller, pos)
}

func zeroResults(sig *types.Signature) Value {
	switch sig.Results().Len() {
	case 0:
		return nil
	case 1:
		return zero(sig.Results().At(0).Type())
	}
	return zero(sig.Results())
}

func fnPkgPath(fn *ssa.Function) string {
	if fn.Pkg != nil {
		return fn.Pkg.Pkg.Path()
	}
	if o := fn.Origin(); o != nil && o.Pkg != nil {
		return o.Pkg.Pkg.Path()
	}
	if fn.Object() != nil && fn.Object().Pkg() != nil {
		return fn.Object().Pkg().Path()
	}
	// synthetic wrappers/bounds: take the package from the receiver's type
	if fn.Signature.Recv() != nil {
		t := fn.Signature.Recv().Type()
		if p, ok := t.(*types.Pointer); ok {
			t = p.Elem()
		}
		if n, ok := types.Unalias(t).(*types.Named); ok && n.Obj().Pkg() != nil {
			return n.Obj().Pkg().Path()
		}
	}
	if p := fn.Parent(); p != nil {
		return fnPkgPath(p)
	}
	return ""
}

func isNoopPkg(p string) bool {
	return strings.HasPrefix(p, "go.uber.org/zap") || strings.HasPrefix(p, "github.com/ipfs/go-log") ||
		strings.HasPrefix(p, "go.opencensus.io") || p == "runtime/pprof" || p == "log"
}

func isDeniedPkg(p string) bool {
	switch p {
	case "runtime", "sync", "sync/atomic", "reflect", "unsafe", "encoding/json", "net", "net/http", "os", "syscall", "time",
		"github.com/gorilla/websocket", "math/rand", "fmt", "net/url", "github.com/google/uuid", "net/http/httptest",
		"encoding/base64", "testing", "internal/reflectlite", "unicode", "golang.org/x/xerrors", "context", "bytes", "io/ioutil", "math", "strconv", "sort":
		return true
	}
	if p == "internal/stringslite" || p == "internal/itoa" {
		return false
	}
	return strings.HasPrefix(p, "internal/") || strings.HasPrefix(p, "runtime/") || strings.HasPrefix(p, "crypto/")
}

const maxDepth = 400

func (g *G) callSSA(fn *ssa.Function, args []Value, env []Value, caller *Frame, pos token.Pos) Value {
	g.depth++
	if g.depth > maxDepth {
		g.inconclusive("call depth budget exceeded in " + fn.String())
	}
	defer func() { g.depth-- }()
	info := g.run.P.info(fn)
	fr := &Frame{g: g, caller: caller, fn: fn, info: info, env: make([]Value, info.n), pos: pos}
	if len(args) != len(fn.Params) {
		panic(fmt.Sprintf("callSSA %v: %d args for %d params", fn, len(args), len(fn.Params)))
	}
	for i := range fn.Params {
		fr.env[i] = args[i]
	}
	for i := range fn.FreeVars {
		fr.env[len(fn.Params)+i] = env[i]
	}
	fr.block = fn.Blocks[0]
	saved := g.top
	g.top = fr
	defer func() { g.top = saved }()
	for fr.block != nil {
		fr.runBlocks()
	}
	return fr.result
}

func (fr *Frame) runBlocks() {
	defer func() {
		if fr.block == nil {
			return // normal return
		}
		p := recover()
		if _, ok := p.(abortRun); ok {
			panic(p)
		}
		if p == nil {
			// runtime.Goexit-like unwinding cannot be observed via recover
			return
		}
		if _, isTP := p.(targetPanic); !isTP {
			if _, isGE := p.(goexit); !isGE {
				// engine bug or Go runtime error inside the engine
				panic(p)
			}
		}
		fr.panicking = true
		fr.panicV = p
		fr.runDefers()
		// recovered
		fr.block = fr.fn.Recover
		if fr.block == nil {
			// no named results to return: return zero results
			fr.result = zeroResults(fr.fn.Signature)
		}
	}()
	for {
		blk := fr.block
		jumped := false
		for _, in := range blk.Instrs {
			switch fr.visit(in) {
			case kReturn:
				fr.block = nil
				return
			case kJump:
				jumped = true
			}
			if jumped {
				break
			}
		}
		if !jumped {
			panic("block fell through: " + fr.fn.String())
		}
	}
}

func (fr *Frame) runDefers() {
	for len(fr.defers) > 0 {
		d := fr.defers[len(fr.defers)-1]
		fr.defers = fr.defers[:len(fr.defers)-1]
		fr.runDefer(d)
	}
	if fr.panicking {
		panic(fr.panicV)
	}
}

func (fr *Frame) runDefer(d deferred) {
	ok := false
	defer func() {
		if !ok {
			p := recover()
			if _, ab := p.(abortRun); ab {
				panic(p)
			}
			if _, isTP := p.(targetPanic); !isTP {
				if _, isGE := p.(goexit); !isGE {
					panic(p)
				}
			}
			fr.panicking = true
			fr.panicV = p
		}
	}()
	fr.g.callFn(d.cl, d.args, fr, d.pos)
	ok = true
}

type cont int

const (
	kNext cont = iota
	kReturn
	kJump
)

func (fr *Frame) visit(instr ssa.Instruction) cont {
	g := fr.g
	g.run.step(g, instr)
	switch in := instr.(type) {
	case *ssa.DebugRef:
	case *ssa.UnOp:
		fr.set(in, fr.unop(in))
	case *ssa.BinOp:
		fr.set(in, g.binop(in.Op, in.X.Type(), fr.get(in.X), fr.get(in.Y), in.Y.Type()))
	case *ssa.Call:
		fr.pos = in.Pos()
		fr.set(in, g.callCommon(fr, in.Common(), in.Pos()))
	case *ssa.ChangeInterface:
		fr.set(in, fr.get(in.X))
	case *ssa.ChangeType:
		fr.set(in, g.conv(in.Type(), in.X.Type(), fr.get(in.X)))
	case *ssa.Convert:
		fr.set(in, g.conv(in.Type(), in.X.Type(), fr.get(in.X)))
	case *ssa.MakeInterface:
		fr.set(in, Iface{T: in.X.Type(), V: copyVal(fr.get(in.X))})
	case *ssa.Extract:
		fr.set(in, fr.get(in.Tuple).(Tuple)[in.Index])
	case *ssa.Slice:
		fr.set(in, fr.sliceOp(in))
	case *ssa.Return:
		switch len(in.Results) {
		case 0:
		case 1:
			fr.result = fr.get(in.Results[0])
		default:
			t := make(Tuple, len(in.Results))
			for i, r := range in.Results {
				t[i] = fr.get(r)
			}
			fr.result = t
		}
		return kReturn
	case *ssa.RunDefers:
		fr.runDefers()
	case *ssa.Panic:
		pv := fr.get(in.X)
		if iv, ok := pv.(Iface); ok && iv.T == nil {
			// Go >= 1.21: panic(nil) is a *runtime.PanicNilError
			cell := new(Value)
			*cell = zero(g.run.P.NamedType("runtime", "PanicNilError"))
			pv = Iface{T: types.NewPointer(g.run.P.NamedType("runtime", "PanicNilError")), V: cell}
		}
		panic(targetPanic{pv})
	case *ssa.Send:
		g.chanSend(fr.get(in.Chan).(*Chan), copyVal(fr.get(in.X)))
	case *ssa.Store:
		p := fr.get(in.Addr).(*Value)
		if p == nil {
			g.goPanic("runtime error: invalid memory address or nil pointer dereference")
		}
		if g.run.raceOn && len(g.run.watch) > 0 {
			g.run.recordAccess(g, p, true)
		}
		store(p, fr.get(in.Val))
	case *ssa.If:
		succ := 1
		if g.branch(fr.get(in.Cond).(Bool)) {
			succ = 0
		}
		fr.prev, fr.block = fr.block, fr.block.Succs[succ]
		return kJump
	case *ssa.Jump:
		fr.prev, fr.block = fr.block, fr.block.Succs[0]
		return kJump
	case *ssa.Defer:
		cl, args := fr.prepareCall(in.Common())
		fr.defers = append(fr.defers, deferred{cl, args, in.Pos()})
	case *ssa.Go:
		cl, args := fr.prepareCall(in.Common())
		g.spawn(cl, args, fr, in.Pos())
	case *ssa.MakeChan:
		n := fr.get(in.Size).(Int)
		if n.T != nil {
			g.inconclusive("symbolic channel capacity")
		}
		fr.set(in, g.run.newChan(int(n.C), in.Type().Underlying().(*types.Chan).Elem()))
	case *ssa.Alloc:
		p := new(Value)
		et := in.Type().Underlying().(*types.Pointer).Elem()
		*p = zero(et)
		if g.run.raceOn && isNamed(et, ModPath, "wsConn") {
			st := under(et).(*types.Struct)
			s := (*p).(Struct)
			for i := 0; i < st.NumFields(); i++ {
				if st.Field(i).Name() == "conn" {
					g.run.watch[&s[i]] = &watchCell{name: "wsConn." + st.Field(i).Name()}
				}
			}
		}
		fr.set(in, p)
	case *ssa.MakeSlice:
		fr.set(in, fr.makeSlice(in))
	case *ssa.MakeMap:
		fr.set(in, &MapV{KT: in.Type().Underlying().(*types.Map).Key()})
	case *ssa.Range:
		fr.set(in, g.rangeIter(fr.get(in.X), in.X.Type()))
	case *ssa.Next:
		fr.set(in, fr.get(in.Iter).(*iter).next())
	case *ssa.FieldAddr:
		p := fr.get(in.X).(*Value)
		if p == nil {
			g.goPanic("runtime error: invalid memory address or nil pointer dereference")
		}
		s, ok := (*p).(Struct)
		if !ok {
			panic(fmt.Sprintf("FieldAddr on %T in %v (%v)", *p, fr.fn, in.X.Type()))
		}
		fr.set(in, &s[in.Field])
	case *ssa.Field:
		fr.set(in, copyVal(fr.get(in.X).(Struct)[in.Field]))
	case *ssa.IndexAddr:
		fr.set(in, fr.indexAddr(in))
	case *ssa.Index:
		fr.set(in, fr.index(in))
	case *ssa.Lookup:
		fr.set(in, fr.lookup(in))
	case *ssa.MapUpdate:
		m := fr.get(in.Map).(*MapV)
		if m == nil {
			g.goPanic("assignment to entry in nil map")
		}
		g.mapSet(m, fr.get(in.Key), copyVal(fr.get(in.Value)))
	case *ssa.TypeAssert:
		fr.set(in, fr.typeAssert(in))
	case *ssa.MakeClosure:
		var env []Value
		for _, b := range in.Bindings {
			env = append(env, fr.get(b))
		}
		fr.set(in, &Closure{Fn: in.Fn.(*ssa.Function), Env: env})
	case *ssa.Phi:
		for i, pred := range in.Block().Preds {
			if fr.prev == pred {
				fr.set(in, fr.get(in.Edges[i]))
				break
			}
		}
	case *ssa.Select:
		fr.set(in, fr.selectOp(in))
	default:
		g.inconclusive(fmt.Sprintf("unsupported SSA instruction %T", instr))
	}
	return kNext
}

func (fr *Frame) unop(in *ssa.UnOp) Value {
	g := fr.g
	x := fr.get(in.X)
	switch in.Op {
	case token.ARROW:
		v, ok := g.chanRecv(x.(*Chan))
		if in.CommaOk {
			return Tuple{v, Bool{C: ok}}
		}
		return v
	case token.MUL:
		p := x.(*Value)
		if p == nil {
			g.goPanic("runtime error: invalid memory address or nil pointer dereference")
		}
		if g.run.raceOn && len(g.run.watch) > 0 {
			g.run.recordAccess(g, p, false)
		}
		return load(p)
	}
	return g.unop(in.Op, in.X.Type(), x)
}

func (fr *Frame) prepareCall(c *ssa.CallCommon) (*Closure, []Value) {
	g := fr.g
	var args []Value
	var cl *Closure
	if c.IsInvoke() {
		recv := fr.get(c.Value).(Iface)
		if recv.T == nil {
			g.goPanic("runtime error: invalid memory address or nil pointer dereference (method call on nil interface)")
		}
		fn := g.run.P.lookupMethod(recv.T, c.Method)
		if fn == nil {
			panic(fmt.Sprintf("no method %v on %v", c.Method, recv.T))
		}
		cl = &Closure{Fn: fn}
		args = append(args, recv.V)
	} else {
		switch v := c.Value.(type) {
		case *ssa.Builtin:
			cl = &Closure{Name: "builtin:" + v.Name()}
		case *ssa.Function:
			cl = &Closure{Fn: v}
		default:
			cl = fr.get(c.Value).(*Closure)
		}
	}
	for _, a := range c.Args {
		args = append(args, copyVal(fr.get(a)))
	}
	return cl, args
}

func (p *Program) lookupMethod(t types.Type, m *types.Func) *ssa.Function {
	return p.Prog.LookupMethod(t, m.Pkg(), m.Name())
}

func (g *G) callCommon(fr *Frame, c *ssa.CallCommon, pos token.Pos) Value {
	if b, ok := c.Value.(*ssa.Builtin); ok && !c.IsInvoke() {
		args := make([]Value, len(c.Args))
		for i, a := range c.Args {
			args[i] = fr.get(a)
		}
		return g.builtin(fr, b, c, args)
	}
	cl, args := fr.prepareCall(c)
	if cl != nil && strings.HasPrefix(cl.Name, "builtin:") && cl.Fn == nil && cl.Native == nil {
		panic("builtin as value")
	}
	return g.callFn(cl, args, fr, pos)
}

// ---- builtins ----

func (g *G) builtin(fr *Frame, b *ssa.Builtin, c *ssa.CallCommon, args []Value) Value {
	switch b.Name() {
	case "len":
		return g.lenOf(args[0])
	case "cap":
		switch v := args[0].(type) {
		case Slice:
			return Int{C: uint64(cap(v))}
		case *Chan:
			if v == nil {
				return Int{}
			}
			return Int{C: uint64(v.cap)}
		case *Blob:
			return g.lenOf(v)
		case *Value:
			return Int{C: uint64(len((*v).(Array)))}
		case Array:
			return Int{C: uint64(len(v))}
		}
	case "append":
		return g.appendOp(args[0], args[1], c.Args[1].Type())
	case "copy":
		return g.copyOp(args[0], args[1])
	case "close":
		g.chanClose(args[0].(*Chan))
		return nil
	case "delete":
		m := args[0].(*MapV)
		if m != nil {
			g.mapDelete(m, args[1])
		}
		return nil
	case "panic":
		panic(targetPanic{args[0]})
	case "recover":
		return g.doRecover(fr)
	case "print", "println":
		return nil
	case "min", "max":
		if len(args) == 2 {
			op := token.LSS
			if b.Name() == "max" {
				op = token.GTR
			}
			c0 := g.binop(op, c.Args[0].Type(), args[0], args[1], c.Args[1].Type()).(Bool)
			if g.branch(c0) {
				return args[0]
			}
			return args[1]
		}
	case "ssa:wrapnilchk":
		if p, ok := args[0].(*Value); ok && p == nil {
			g.goPanic("value method called using nil pointer")
		}
		return args[0]
	case "clear":
		switch v := args[0].(type) {
		case *MapV:
			if v != nil {
				v.Keys, v.Vals = nil, nil
			}
		}
		return nil
	}
	g.inconclusive("unsupported builtin " + b.Name() + fmt.Sprintf(" on %T", args[0]))
	return nil
}

func (g *G) doRecover(fr *Frame) Value {
	// recover() is effective only when called directly by a deferred function
	// while its caller frame is panicking.
	c := fr.caller
	if c != nil && c.panicking {
		p := c.panicV
		if tp, ok := p.(targetPanic); ok {
			c.panicking = false
			c.panicV = nil
			if tp.v == nil {
				return Iface{}
			}
			if _, isI := tp.v.(Iface); isI {
				return tp.v
			}
			return tp.v
		}
	}
	return Iface{}
}

func (g *G) lenOf(v Value) Value {
	switch v := v.(type) {
	case Str:
		n, ok := v.Len()
		if !ok {
			g.inconclusive("len of opaque string")
		}
		return Int{C: uint64(n)}
	case Slice:
		return Int{C: uint64(len(v))}
	case *Blob:
		return v.Len(g)
	case *MapV:
		return Int{C: uint64(v.Len())}
	case *Chan:
		if v == nil {
			return Int{}
		}
		return Int{C: uint64(len(v.buf))}
	case Array:
		return Int{C: uint64(len(v))}
	case *Value:
		if v == nil {
			return Int{}
		}
		return Int{C: uint64(len((*v).(Array)))}
	}
	panic(fmt.Sprintf("len of %T", v))
}

func (g *G) appendOp(a, b Value, bt types.Type) Value {
	if s, ok := b.(Str); ok { // append([]byte, string...)
		b = g.conv(types.NewSlice(types.Typ[types.Uint8]), bt, s)
	}
	switch x := a.(type) {
	case Slice:
		switch y := b.(type) {
		case Slice:
			if len(y) == 0 {
				return x
			}
			inPlace := cap(x) >= len(x)+len(y)
			out := append(x, y...)
			for i := len(x); i < len(out); i++ {
				out[i] = copyVal(out[i])
			}
			if inPlace && g.run.raceOn && g.top != nil && g.top.fn != nil && isModulePkg(fnPkgPath(g.top.fn)) {
				// append into spare capacity writes cells that every holder of the old slice shares:
				// treat them as watched memory (vector-clock race detection)
				for i := len(x); i < len(out); i++ {
					p := &out[i]
					if g.run.watch[p] == nil {
						g.run.watch[p] = &watchCell{name: "slice element written by append into shared spare capacity"}
					}
					g.run.recordAccess(g, p, true)
				}
			}
			return out
		case *Blob:
			if len(x) == 0 {
				return y
			}
			return blobConcat(g, blobFromSlice(g, x), y)
		}
	case *Blob:
		var out *Blob
		switch y := b.(type) {
		case Slice:
			if len(y) == 0 {
				return x
			}
			out = blobConcat(g, x, blobFromSlice(g, y))
		case *Blob:
			if y == nil || len(y.Segs) == 0 {
				return x
			}
			out = blobConcat(g, x, y)
		}
		if out != nil {
			if x != nil && x.reuse && x.bk != nil && len(x.Segs) == 0 {
				// append(old[:0], data...): the old array is overwritten in place
				x.bk.gen++
				out = &Blob{Segs: out.Segs, bk: x.bk, bgen: x.bk.gen}
			}
			return out
		}
	}
	panic(fmt.Sprintf("append %T %T", a, b))
}

func (g *G) copyOp(dst, src Value) Value {
	if s, ok := src.(Str); ok {
		src = g.conv(types.NewSlice(types.Typ[types.Uint8]), types.Typ[types.String], s)
	}
	switch d := dst.(type) {
	case Slice:
		switch s := src.(type) {
		case Slice:
			n := len(d)
			if len(s) < n {
				n = len(s)
			}
			tmp := make([]Value, n)
			for i := 0; i < n; i++ {
				tmp[i] = copyVal(s[i])
			}
			copy(d, tmp)
			return Int{C: uint64(n)}
		case *Blob:
			if bs, ok := s.ConcreteBytes(); ok {
				n := len(d)
				if len(bs) < n {
					n = len(bs)
				}
				for i := 0; i < n; i++ {
					d[i] = Int{C: uint64(bs[i])}
				}
				return Int{C: uint64(n)}
			}
		}
	case *Blob:
		return d.CopyFrom(g, src)
	}
	g.inconclusive(fmt.Sprintf("copy(%T, %T)", dst, src))
	return nil
}

// ---- slices, indexing ----

func (fr *Frame) makeSlice(in *ssa.MakeSlice) Value {
	g := fr.g
	n := fr.get(in.Len).(Int)
	c := fr.get(in.Cap).(Int)
	et := in.Type().Underlying().(*types.Slice).Elem()
	if n.T != nil {
		if isByteSlice(in.Type()) {
			return newSinkBlob(g, n)
		}
		g.inconclusive("make slice with symbolic length")
	}
	if c.T != nil {
		if n.C == 0 {
			// make([]T, 0, n): the capacity is only a hint for what follows
			return make(Slice, 0)
		}
		g.inconclusive("make slice with symbolic capacity")
	}
	if int64(n.C) < 0 || int64(c.C) < int64(n.C) || n.C > 1<<24 {
		if int64(n.C) < 0 {
			g.goPanic("runtime error: makeslice: len out of range")
		}
		g.inconclusive("make slice too large for the engine")
	}
	s := make(Slice, n.C, c.C)
	for i := range s {
		s[i] = zero(et)
	}
	return s
}

func (g *G) concreteIndex(i Int, n int, what string) int {
	if i.T == nil {
		if int64(i.C) < 0 || int64(i.C) >= int64(n) {
			g.goPanic(fmt.Sprintf("runtime error: index out of range [%d] with length %d", int64(i.C), n))
		}
		return int(i.C)
	}
	// symbolic index: out-of-range?
	oob := Not(BVCmp("bvult", i.T, BVConst(uint64(n), 64)))
	if g.branch(mkBool(oob)) {
		g.goPanic(fmt.Sprintf("runtime error: index out of range [symbolic] with length %d", n))
	}
	// fork over the candidates
	for k := 0; k < n-1; k++ {
		if g.branch(mkBool(Eq(i.T, BVConst(uint64(k), 64)))) {
			return k
		}
	}
	return n - 1
}

func (fr *Frame) indexAddr(in *ssa.IndexAddr) Value {
	g := fr.g
	x := fr.get(in.X)
	idx := fr.get(in.Index).(Int)
	if w, signed, ok := intWidth(in.Index.Type()); ok && w < 64 {
		if signed {
			idx = mkInt(SignExt(idx.Term(w), 64))
		} else {
			idx = mkInt(ZeroExt(idx.Term(w), 64))
		}
	}
	switch x := x.(type) {
	case Slice:
		k := g.concreteIndex(idx, len(x), "slice")
		return &x[k]
	case *Value: // *array
		if x == nil {
			g.goPanic("runtime error: invalid memory address or nil pointer dereference")
		}
		a := (*x).(Array)
		k := g.concreteIndex(idx, len(a), "array")
		return &a[k]
	case *Blob:
		return x.IndexAddr(g, idx)
	}
	panic(fmt.Sprintf("IndexAddr on %T", x))
}

func (fr *Frame) index(in *ssa.Index) Value {
	g := fr.g
	x := fr.get(in.X)
	idx := fr.get(in.Index).(Int)
	switch x := x.(type) {
	case Array:
		return copyVal(x[g.concreteIndex(idx, len(x), "array")])
	case Str:
		bs, ok := x.Bytes()
		if !ok {
			g.inconclusive("index into opaque string")
		}
		k := g.concreteIndex(idx, len(bs), "string")
		return mkInt(bs[k])
	}
	panic(fmt.Sprintf("Index on %T", x))
}

func (fr *Frame) sliceOp(in *ssa.Slice) Value {
	g := fr.g
	x := fr.get(in.X)
	bound := func(v ssa.Value, def int) (int, *Term) {
		if v == nil {
			return def, nil
		}
		i := fr.get(v).(Int)
		if i.T != nil {
			return 0, i.T
		}
		return int(int64(i.C)), nil
	}
	conc := func(v ssa.Value, def int, what string) int {
		k, t := bound(v, def)
		if t != nil {
			g.inconclusive("symbolic slice bound (" + what + ")")
		}
		return k
	}
	switch x := x.(type) {
	case Str:
		bs, ok := x.Bytes()
		if !ok {
			g.inconclusive("slicing opaque string")
		}
		lo := conc(in.Low, 0, "string")
		hi := conc(in.High, len(bs), "string")
		if lo < 0 || hi > len(bs) || lo > hi {
			g.goPanic(fmt.Sprintf("runtime error: slice bounds out of range [%d:%d] with length %d", lo, hi, len(bs)))
		}
		return strFromBytes(bs[lo:hi])
	case Slice:
		lo := conc(in.Low, 0, "slice")
		hi := conc(in.High, len(x), "slice")
		mx := conc(in.Max, cap(x), "slice")
		if lo < 0 || hi > cap(x) || lo > hi || mx > cap(x) || hi > mx {
			g.goPanic(fmt.Sprintf("runtime error: slice bounds out of range [%d:%d] with capacity %d", lo, hi, cap(x)))
		}
		if x == nil {
			return Slice(nil)
		}
		return x[lo:hi:mx]
	case *Value: // *array
		if x == nil {
			g.goPanic("runtime error: invalid memory address or nil pointer dereference")
		}
		a := (*x).(Array)
		lo := conc(in.Low, 0, "array")
		hi := conc(in.High, len(a), "array")
		if lo < 0 || hi > len(a) || lo > hi {
			g.goPanic("runtime error: slice bounds out of range")
		}
		return Slice(a[lo:hi])
	case *Blob:
		var lo, hi *Int
		if in.Low != nil {
			v := fr.get(in.Low).(Int)
			lo = &v
		}
		if in.High != nil {
			v := fr.get(in.High).(Int)
			hi = &v
		}
		return x.SliceOp(g, lo, hi)
	}
	panic(fmt.Sprintf("Slice on %T", x))
}

// ---- maps ----

func (g *G) mapFind(m *MapV, k Value) int {
	if m == nil {
		return -1
	}
	if ik, ok := k.(Iface); ok && ik.T != nil && !types.Comparable(ik.T) {
		g.goPanic("runtime error: hash of unhashable type " + ik.T.String())
	}
	for i := range m.Keys {
		if g.branch(eqVals(g, m.Keys[i], k)) {
			return i
		}
	}
	return -1
}

func (g *G) mapSet(m *MapV, k, v Value) {
	if i := g.mapFind(m, k); i >= 0 {
		m.Vals[i] = v
		return
	}
	m.Keys = append(m.Keys, copyVal(k))
	m.Vals = append(m.Vals, v)
}

func (g *G) mapDelete(m *MapV, k Value) {
	if i := g.mapFind(m, k); i >= 0 {
		m.Keys = append(m.Keys[:i:i], m.Keys[i+1:]...)
		m.Vals = append(m.Vals[:i:i], m.Vals[i+1:]...)
	}
}

func (fr *Frame) lookup(in *ssa.Lookup) Value {
	g := fr.g
	x := fr.get(in.X)
	if s, ok := x.(Str); ok {
		bs, ok := s.Bytes()
		if !ok {
			g.inconclusive("index into opaque string")
		}
		k := g.concreteIndex(fr.get(in.Index).(Int), len(bs), "string")
		return mkInt(bs[k])
	}
	m := x.(*MapV)
	i := g.mapFind(m, fr.get(in.Index))
	var v Value
	if i >= 0 {
		v = copyVal(m.Vals[i])
	} else {
		v = zero(in.X.Type().Underlying().(*types.Map).Elem())
	}
	if in.CommaOk {
		return Tuple{v, Bool{C: i >= 0}}
	}
	return v
}

type iter struct {
	keys, vals []Value
	str        []rune
	strIdx     []int
	pos        int
	isStr      bool
}

func (g *G) rangeIter(x Value, t types.Type) *iter {
	switch x := x.(type) {
	case *MapV:
		it := &iter{}
		if x != nil {
			it.keys = append(it.keys, x.Keys...)
			it.vals = append(it.vals, x.Vals...)
		}
		return it
	case Str:
		if !x.IsConc() {
			// byte-wise iteration is only right for ASCII; symbolic bytes are assumed < 0x80
			bs, ok := x.Bytes()
			if !ok {
				g.inconclusive("range over opaque string")
			}
			it := &iter{isStr: true}
			for i, b := range bs {
				it.keys = append(it.keys, Int{C: uint64(i)})
				it.vals = append(it.vals, mkInt(ZeroExt(b, 32)))
			}
			return it
		}
		it := &iter{isStr: true}
		for i, r := range x.C {
			it.keys = append(it.keys, Int{C: uint64(i)})
			it.vals = append(it.vals, Int{C: uint64(uint32(r))})
		}
		return it
	}
	panic(fmt.Sprintf("range over %T", x))
}

func (it *iter) next() Value {
	if it.pos >= len(it.keys) {
		return Tuple{Bool{C: false}, nil, nil}
	}
	k, v := it.keys[it.pos], it.vals[it.pos]
	it.pos++
	return Tuple{Bool{C: true}, k, copyVal(v)}
}

// ---- type assertions ----

func (p *Program) implements(t types.Type, it *types.Interface) bool {
	return types.Implements(t, it)
}

func (fr *Frame) typeAssert(in *ssa.TypeAssert) Value {
	g := fr.g
	x := fr.get(in.X).(Iface)
	ok := false
	var v Value
	if it, isI := under(in.AssertedType).(*types.Interface); isI {
		if x.T != nil && types.Implements(x.T, it) {
			ok = true
			v = x
		}
	} else if x.T != nil && types.Identical(x.T, in.AssertedType) {
		ok = true
		v = copyVal(x.V)
	}
	if in.CommaOk {
		if !ok {
			v = zero(in.AssertedType)
		}
		return Tuple{v, Bool{C: ok}}
	}
	if !ok {
		if x.T == nil {
			g.goPanic(fmt.Sprintf("interface conversion: interface is nil, not %v", in.AssertedType))
		}
		g.goPanic(fmt.Sprintf("interface conversion: interface {} is %v, not %v", x.T, in.AssertedType))
	}
	return v
}

// goPanic raises a Go run-time panic (runtime.Error) in the interpreted program.
func (g *G) goPanic(msg string) {
	t := g.run.P.NamedType("runtime", "errorString")
	msg = strings.TrimPrefix(msg, "runtime error: ")
	panic(targetPanic{Iface{T: t, V: S(msg)}})
}
