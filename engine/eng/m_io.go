package eng

// bytes.Buffer / bytes.Reader / io helpers carrying blobs; uuid.

import (
	"fmt"
	"go/token"
	"go/types"

	"github.com/google/uuid"
	"golang.org/x/tools/go/ssa"
)

func (g *G) ioEOF() Value { return load(g.run.global(g.run.P.Pkgs["io"].Var("EOF"))) }

func (g *G) isEOF(e Value) bool {
	x, _ := e.(Iface)
	eof, _ := g.ioEOF().(Iface)
	return x.T != nil && eof.T != nil && types.Identical(x.T, eof.T) && x.V == eof.V
}

// deposit hands content to a Read(p) destination. Returns n.
func (g *G) deposit(p Value, content *Blob) (Int, *Blob) {
	switch d := p.(type) {
	case *Blob:
		if d != nil && d.sink {
			if d.got == nil {
				d.got = content
			} else {
				d.got = blobConcat(g, d.got, content)
			}
			return content.Len(g).(Int), &Blob{}
		}
	case Slice:
		ts, ok := content.byteTerms()
		if !ok {
			g.inconclusive("reading an abstract payload into a concrete byte buffer")
		}
		n := len(d)
		if len(ts) < n {
			n = len(ts)
		}
		for i := 0; i < n; i++ {
			d[i] = mkInt(ts[i])
		}
		return Int{C: uint64(n)}, blobFromTerms(ts[n:])
	}
	g.inconclusive(fmt.Sprintf("Read into %T", p))
	return Int{}, nil
}

func (g *G) noteReaderOrig(p Value, cur *Blob) {
	if ptr, _ := p.(*Value); ptr != nil && g.run.readerOrig[ptr] == nil {
		g.run.readerOrig[ptr] = cur
	}
}

func blobEmpty(b *Blob) bool { return b == nil || len(b.Segs) == 0 }

// readAllFrom drains r. err is nil on EOF, else the reader's error (Iface).
func (g *G) readAllFrom(r Iface) (*Blob, Value) {
	if r.T == nil {
		g.goPanic("runtime error: invalid memory address or nil pointer dereference (nil Reader)")
	}
	P := g.run.P
	switch {
	case types.Identical(r.T, types.NewPointer(P.NamedType("bytes", "Buffer"))),
		types.Identical(r.T, types.NewPointer(P.NamedType("bytes", "Reader"))),
		types.Identical(r.T, types.NewPointer(P.NamedType("strings", "Reader"))):
		s := (*r.V.(*Value)).(Struct)
		b := g.asBlob(s[0])
		g.noteReaderOrig(r.V, b)
		s[0] = Slice(nil)
		return b, nil
	case types.Identical(r.T, types.NewPointer(P.NamedType("io", "LimitedReader"))):
		s := (*r.V.(*Value)).(Struct)
		inner := s[0].(Iface)
		n := s[1].(Int)
		if g.branch(mkBool(BVCmp("bvsle", n.Term(64), BVConst(0, 64)))) {
			return &Blob{}, nil
		}
		content, err := g.readAllFrom(inner)
		l := content.Len(g).(Int)
		if g.branch(mkBool(BVCmp("bvule", l.Term(64), n.Term(64)))) {
			s[1] = mkInt(BVBin("bvsub", n.Term(64), l.Term(64)))
			return content, err
		}
		s[1] = Int{}
		if ts, ok := content.byteTerms(); ok && n.T == nil {
			return blobFromTerms(ts[:n.C]), nil
		}
		return &Blob{Segs: []BSeg{{Opq: n.Term(64)}}}, nil
	}
	// generic: call Read with a sink until EOF
	fn := g.findMethod(r.T, "Read")
	if fn == nil {
		panic("readAllFrom: no Read on " + r.T.String())
	}
	out := &Blob{}
	for i := 0; i < 64; i++ {
		sink := &Blob{sink: true}
		res := g.callFn(&Closure{Fn: fn}, []Value{r.V, sink}, g.top, token.NoPos).(Tuple)
		if sink.got != nil {
			out = blobConcat(g, out, sink.got)
		}
		if e, _ := res[1].(Iface); e.T != nil {
			if g.isEOF(e) {
				return out, nil
			}
			return out, e
		}
		n := res[0].(Int)
		if n.T == nil && n.C == 0 && sink.got == nil {
			// zero-length read without error: keep going (bounded)
			continue
		}
	}
	g.inconclusive("reader did not reach EOF within 64 reads")
	return nil, nil
}

func bufContent(g *G, p Value) (Struct, *Blob) {
	ptr, _ := p.(*Value)
	if ptr == nil {
		g.goPanic("runtime error: invalid memory address or nil pointer dereference")
	}
	s := (*ptr).(Struct)
	return s, g.asBlob(s[0])
}

// Every bytes.Buffer has a backing identity: the slice handed out by Bytes() aliases the
// buffer's array, and is overwritten when the buffer is written again after a Reset/Truncate(0)
// (typically after the buffer went back to a pool and was taken out by somebody else). Reading
// such a slice afterwards is a stale-buffer read.
func (g *G) bufOverwrite(p *Value) {
	r := g.run
	if r.bufResetPending[p] {
		r.bufResetPending[p] = false
		if bk := r.bufGen[p]; bk != nil {
			bk.gen++
		}
	}
}

func init() {
	reg("bytes.NewBuffer", func(g *G, fr *Frame, fn *ssa.Function, a []Value) Value {
		p := new(Value)
		s := zero(g.run.P.NamedType("bytes", "Buffer")).(Struct)
		s[0] = a[0]
		*p = s
		// an empty slice with spare capacity is a buffer to be (re)filled in place
		switch x := a[0].(type) {
		case Slice:
			if len(x) == 0 && cap(x) > 0 {
				full := x[:cap(x)]
				key := &full[0]
				bk := g.run.backings[key]
				if bk == nil {
					g.run.nextObj++
					bk = &Backing{id: g.run.nextObj}
					g.run.backings[key] = bk
				}
				g.run.bufBacking[p] = bk
			}
		case *Blob:
			if x != nil && x.bk != nil && len(x.Segs) == 0 {
				g.run.bufBacking[p] = x.bk
				s[0] = Slice(nil)
			}
		}
		return p
	})
	reg("bytes.NewBufferString", func(g *G, fr *Frame, fn *ssa.Function, a []Value) Value {
		p := new(Value)
		s := zero(g.run.P.NamedType("bytes", "Buffer")).(Struct)
		s[0] = g.strToBytes(a[0].(Str))
		*p = s
		return p
	})
	reg("bytes.NewReader", func(g *G, fr *Frame, fn *ssa.Function, a []Value) Value {
		p := new(Value)
		s := zero(g.run.P.NamedType("bytes", "Reader")).(Struct)
		s[0] = a[0]
		*p = s
		return p
	})
	reg("strings.NewReader", func(g *G, fr *Frame, fn *ssa.Function, a []Value) Value {
		p := new(Value)
		s := zero(g.run.P.NamedType("strings", "Reader")).(Struct)
		s[0] = g.strToBytes(a[0].(Str))
		*p = s
		return p
	})
	write := func(g *G, fr *Frame, fn *ssa.Function, a []Value) Value {
		s, cur := bufContent(g, a[0])
		add := g.asBlob(a[1])
		g.bufOverwrite(a[0].(*Value))
		nb := blobConcat(g, cur, add)
		if bk := g.run.bufBacking[a[0].(*Value)]; bk != nil {
			bk.gen++
			nb = &Blob{Segs: nb.Segs, bk: bk, bgen: bk.gen}
		}
		s[0] = nb
		return Tuple{add.Len(g), Iface{}}
	}
	reg("(*bytes.Buffer).Write", write)
	reg("(*bytes.Buffer).WriteString", func(g *G, fr *Frame, fn *ssa.Function, a []Value) Value {
		return write(g, fr, fn, []Value{a[0], g.strToBytes(a[1].(Str))})
	})
	reg("(*bytes.Buffer).WriteByte", func(g *G, fr *Frame, fn *ssa.Function, a []Value) Value {
		write(g, fr, fn, []Value{a[0], Slice{a[1]}})
		return Iface{}
	})
	reg("(*bytes.Buffer).Bytes", func(g *G, fr *Frame, fn *ssa.Function, a []Value) Value {
		_, cur := bufContent(g, a[0])
		p := a[0].(*Value)
		if cur == nil || cur.bk != nil || g.run.bufBacking[p] != nil || len(cur.Segs) == 0 {
			return cur
		}
		bk := g.run.bufGen[p]
		if bk == nil {
			g.run.nextObj++
			bk = &Backing{id: g.run.nextObj}
			g.run.bufGen[p] = bk
		}
		return &Blob{Segs: cur.Segs, bk: bk, bgen: bk.gen}
	})
	reg("(*bytes.Buffer).String", func(g *G, fr *Frame, fn *ssa.Function, a []Value) Value {
		if p, _ := a[0].(*Value); p == nil {
			return S("<nil>")
		}
		_, cur := bufContent(g, a[0])
		return cur.ToStr(g)
	})
	reg("(*bytes.Buffer).Len", func(g *G, fr *Frame, fn *ssa.Function, a []Value) Value {
		_, cur := bufContent(g, a[0])
		return cur.Len(g)
	})
	reg("(*bytes.Buffer).Reset", func(g *G, fr *Frame, fn *ssa.Function, a []Value) Value {
		s, _ := bufContent(g, a[0])
		s[0] = Slice(nil)
		if g.run.bufGen[a[0].(*Value)] != nil {
			g.run.bufResetPending[a[0].(*Value)] = true
		}
		return nil
	})
	reg("(*bytes.Buffer).ReadFrom", func(g *G, fr *Frame, fn *ssa.Function, a []Value) Value {
		s, cur := bufContent(g, a[0])
		content, err := g.readAllFrom(a[1].(Iface))
		g.bufOverwrite(a[0].(*Value))
		nb := blobConcat(g, cur, content)
		if bk := g.run.bufBacking[a[0].(*Value)]; bk != nil {
			bk.gen++
			nb = &Blob{Segs: nb.Segs, bk: bk, bgen: bk.gen}
		}
		s[0] = nb
		if err == nil {
			err = Iface{}
		}
		return Tuple{content.Len(g), err}
	})
	read := func(g *G, fr *Frame, fn *ssa.Function, a []Value) Value {
		s, cur := bufContent(g, a[0])
		if blobEmpty(cur) {
			// bytes.Buffer: empty buffer and len(p)==0 returns 0,nil; otherwise EOF
			return Tuple{Int{}, g.ioEOF()}
		}
		g.noteReaderOrig(a[0], cur)
		n, rest := g.deposit(a[1], cur)
		if blobEmpty(rest) {
			s[0] = Slice(nil)
		} else {
			s[0] = rest
		}
		return Tuple{n, Iface{}}
	}
	reg("(*bytes.Buffer).Read", read)
	reg("(*bytes.Reader).Read", read)
	reg("(*strings.Reader).Read", read)
	// Seek: the reader value holds only the unread rest; the content at position 0 is noted
	// at the first read. Concrete offsets over byte-term content only.
	seek := func(g *G, fr *Frame, fn *ssa.Function, a []Value) Value {
		s, cur := bufContent(g, a[0])
		ptr := a[0].(*Value)
		orig := g.run.readerOrig[ptr]
		if orig == nil {
			orig = cur
		}
		ot, ok1 := orig.byteTerms()
		ct, ok2 := cur.byteTerms()
		off, whence := a[1].(Int), a[2].(Int)
		if !ok1 || !ok2 || off.T != nil || whence.T != nil {
			g.inconclusive("Seek on a reader with abstract content or a symbolic offset")
		}
		pos := int64(len(ot) - len(ct))
		var abs int64
		switch int64(whence.C) {
		case 0:
			abs = int64(off.C)
		case 1:
			abs = pos + int64(off.C)
		case 2:
			abs = int64(len(ot)) + int64(off.C)
		default:
			return Tuple{Int{}, g.mkError(S("Seek: invalid whence"), Iface{})}
		}
		if abs < 0 {
			return Tuple{Int{}, g.mkError(S("Seek: negative position"), Iface{})}
		}
		g.run.readerOrig[ptr] = orig
		if abs >= int64(len(ot)) {
			s[0] = Slice(nil)
		} else {
			s[0] = blobFromTerms(ot[abs:])
		}
		return Tuple{Int{C: uint64(abs)}, Iface{}}
	}
	reg("(*bytes.Reader).Seek", seek)
	reg("(*strings.Reader).Seek", seek)
	reg("(*bytes.Reader).Size", func(g *G, fr *Frame, fn *ssa.Function, a []Value) Value {
		_, cur := bufContent(g, a[0])
		if o := g.run.readerOrig[a[0].(*Value)]; o != nil {
			return o.Len(g)
		}
		return cur.Len(g)
	})
	reg("(*bytes.Reader).Reset", func(g *G, fr *Frame, fn *ssa.Function, a []Value) Value {
		ptr, _ := a[0].(*Value)
		if ptr == nil {
			g.goPanic("runtime error: invalid memory address or nil pointer dereference")
		}
		delete(g.run.readerOrig, ptr)
		st := (*ptr).(Struct)
		st[0] = a[1]
		return nil
	})
	reg("(*strings.Reader).Reset", func(g *G, fr *Frame, fn *ssa.Function, a []Value) Value {
		ptr, _ := a[0].(*Value)
		if ptr == nil {
			g.goPanic("runtime error: invalid memory address or nil pointer dereference")
		}
		delete(g.run.readerOrig, ptr)
		st := (*ptr).(Struct)
		st[0] = g.strToBytes(a[1].(Str))
		return nil
	})
	reg("(*strings.Reader).Len", func(g *G, fr *Frame, fn *ssa.Function, a []Value) Value {
		_, cur := bufContent(g, a[0])
		return cur.Len(g)
	})
	reg("(*bytes.Reader).Len", func(g *G, fr *Frame, fn *ssa.Function, a []Value) Value {
		_, cur := bufContent(g, a[0])
		return cur.Len(g)
	})
	reg("bytes.TrimSpace", func(g *G, fr *Frame, fn *ssa.Function, a []Value) Value {
		if isNilBytes(a[0]) {
			return Slice(nil)
		}
		b := g.asBlob(a[0])
		if b.hasSymBytes() {
			g.inconclusive("bytes.TrimSpace of symbolic bytes")
		}
		t := b.trimSpace()
		if len(t.Segs) == 0 {
			return Slice(nil)
		}
		return t
	})
	reg("bytes.Equal", func(g *G, fr *Frame, fn *ssa.Function, a []Value) Value {
		x, ok1 := g.asBlob(a[0]).byteTerms()
		y, ok2 := g.asBlob(a[1]).byteTerms()
		if !ok1 || !ok2 {
			g.inconclusive("bytes.Equal on abstract payloads")
		}
		if len(x) != len(y) {
			return Bool{C: false}
		}
		c := TrueT
		for i := range x {
			c = And(c, Eq(x[i], y[i]))
		}
		return mkBool(c)
	})
	reg("io.ReadAll", func(g *G, fr *Frame, fn *ssa.Function, a []Value) Value {
		content, err := g.readAllFrom(a[0].(Iface))
		if err == nil {
			err = Iface{}
		}
		if len(content.Segs) == 0 {
			return Tuple{Slice{}, err}
		}
		return Tuple{content, err}
	})
	baseIntrinsics["io/ioutil.ReadAll"] = baseIntrinsics["io.ReadAll"]
	reg("io.Copy", func(g *G, fr *Frame, fn *ssa.Function, a []Value) Value {
		content, err := g.readAllFrom(a[1].(Iface))
		if err == nil {
			err = Iface{}
		}
		if len(content.Segs) > 0 {
			res := g.writeTo(a[0].(Iface), content).(Tuple)
			if e, _ := res[1].(Iface); e.T != nil {
				return Tuple{content.Len(g), e}
			}
		}
		return Tuple{content.Len(g), err}
	})

	// ---- uuid ----
	reg("github.com/google/uuid.New", func(g *G, fr *Frame, fn *ssa.Function, a []Value) Value {
		g.model("uuid.New returns pairwise distinct tokens")
		g.run.nextObj++
		var u uuid.UUID
		u[0] = 0xaa
		u[6] = 0x40
		u[8] = 0x80
		u[14] = byte(g.run.nextObj >> 8)
		u[15] = byte(g.run.nextObj)
		arr := make(Array, 16)
		for i := range arr {
			arr[i] = Int{C: uint64(u[i])}
		}
		return arr
	})
	reg("(github.com/google/uuid.UUID).String", func(g *G, fr *Frame, fn *ssa.Function, a []Value) Value {
		return uuidString(g, a[0])
	})
	reg("github.com/google/uuid.Parse", func(g *G, fr *Frame, fn *ssa.Function, a []Value) Value {
		u, ok := uuidParse(g, a[0].(Str))
		if !ok {
			return Tuple{zero(fn.Signature.Results().At(0).Type()), g.mkError(S("invalid UUID"), Iface{})}
		}
		return Tuple{u, Iface{}}
	})
}

func uuidString(g *G, v Value) Str {
	arr := v.(Array)
	var u uuid.UUID
	for i := range u {
		x := arr[i].(Int)
		if x.T != nil {
			g.inconclusive("symbolic uuid")
		}
		u[i] = byte(x.C)
	}
	return S(u.String())
}

func uuidParse(g *G, s Str) (Value, bool) {
	if !s.IsConc() {
		g.inconclusive("uuid.Parse of symbolic string")
	}
	u, err := uuid.Parse(s.C)
	if err != nil {
		return nil, false
	}
	arr := make(Array, 16)
	for i := range arr {
		arr[i] = Int{C: uint64(u[i])}
	}
	return arr, true
}
