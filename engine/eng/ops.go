package eng

import (
	"fmt"
	"go/token"
	"go/types"
	"math"
	"unicode/utf8"
)

func (g *G) binop(op token.Token, t types.Type, x, y Value, yt types.Type) Value {
	switch a := x.(type) {
	case Int:
		w, signed, ok := intWidth(t)
		if !ok {
			panic(fmt.Sprintf("binop int on %v", t))
		}
		switch op {
		case token.SHL, token.SHR:
			b := y.(Int)
			yw, ys, _ := intWidth(yt)
			if ys {
				neg := BVCmp("bvslt", b.Term(yw), BVConst(0, yw))
				if g.branch(mkBool(neg)) {
					g.goPanic("runtime error: negative shift amount")
				}
			}
			yt2 := b.Term(yw)
			// saturate to w
			var sh *Term
			if yw > w {
				big := BVCmp("bvuge", yt2, BVConst(uint64(w), yw))
				sh = Ite(big, BVConst(uint64(w), w), Extract(yt2, w-1, 0))
			} else {
				sh = ZeroExt(yt2, w)
			}
			var r *Term
			if op == token.SHL {
				r = BVBin("bvshl", a.Term(w), sh)
			} else if signed {
				r = BVBin("bvashr", a.Term(w), sh)
			} else {
				r = BVBin("bvlshr", a.Term(w), sh)
			}
			return mkInt(r)
		}
		b := y.(Int)
		at, bt := a.Term(w), b.Term(w)
		switch op {
		case token.ADD:
			return mkInt(BVBin("bvadd", at, bt))
		case token.SUB:
			return mkInt(BVBin("bvsub", at, bt))
		case token.MUL:
			return mkInt(BVBin("bvmul", at, bt))
		case token.QUO, token.REM:
			if g.branch(mkBool(Eq(bt, BVConst(0, w)))) {
				g.goPanic("runtime error: integer divide by zero")
			}
			name := map[token.Token][2]string{token.QUO: {"bvudiv", "bvsdiv"}, token.REM: {"bvurem", "bvsrem"}}[op]
			if signed {
				return mkInt(BVBin(name[1], at, bt))
			}
			return mkInt(BVBin(name[0], at, bt))
		case token.AND:
			return mkInt(BVBin("bvand", at, bt))
		case token.OR:
			return mkInt(BVBin("bvor", at, bt))
		case token.XOR:
			return mkInt(BVBin("bvxor", at, bt))
		case token.AND_NOT:
			return mkInt(BVBin("bvand", at, BVNot(bt)))
		case token.EQL:
			return mkBool(Eq(at, bt))
		case token.NEQ:
			return mkBool(Not(Eq(at, bt)))
		case token.LSS, token.LEQ, token.GTR, token.GEQ:
			names := map[token.Token][2]string{token.LSS: {"bvult", "bvslt"}, token.LEQ: {"bvule", "bvsle"}, token.GTR: {"bvugt", "bvsgt"}, token.GEQ: {"bvuge", "bvsge"}}[op]
			if signed {
				return mkBool(BVCmp(names[1], at, bt))
			}
			return mkBool(BVCmp(names[0], at, bt))
		}
	case F64:
		b := y.(F64)
		at, bt := a.Term(), b.Term()
		switch op {
		case token.ADD:
			return mkF64(FPBin("fp.add", at, bt))
		case token.SUB:
			return mkF64(FPBin("fp.sub", at, bt))
		case token.MUL:
			return mkF64(FPBin("fp.mul", at, bt))
		case token.QUO:
			return mkF64(FPBin("fp.div", at, bt))
		case token.EQL:
			return mkBool(FPCmp("fp.eq", at, bt))
		case token.NEQ:
			return mkBool(Not(FPCmp("fp.eq", at, bt)))
		case token.LSS:
			return mkBool(FPCmp("fp.lt", at, bt))
		case token.LEQ:
			return mkBool(FPCmp("fp.leq", at, bt))
		case token.GTR:
			return mkBool(FPCmp("fp.gt", at, bt))
		case token.GEQ:
			return mkBool(FPCmp("fp.geq", at, bt))
		}
	case Str:
		b := y.(Str)
		switch op {
		case token.ADD:
			return strConcat(a, b)
		case token.EQL:
			return eqVals(g, a, b)
		case token.NEQ:
			return notB(eqVals(g, a, b))
		case token.LSS, token.GTR, token.LEQ, token.GEQ:
			var r Bool
			var unk bool
			switch op {
			case token.LSS:
				r, unk = strLess(a, b)
			case token.GTR:
				r, unk = strLess(b, a)
			case token.LEQ:
				r, unk = strLess(b, a)
				r = notB(r)
			case token.GEQ:
				r, unk = strLess(a, b)
				r = notB(r)
			}
			if unk {
				g.inconclusive("ordering of opaque strings")
			}
			return r
		}
	case Bool:
		b := y.(Bool)
		switch op {
		case token.EQL:
			return eqVals(g, a, b)
		case token.NEQ:
			return notB(eqVals(g, a, b))
		case token.AND, token.LAND:
			return mkBool(And(a.Term(), b.Term()))
		case token.OR, token.LOR:
			return mkBool(Or(a.Term(), b.Term()))
		}
	}
	switch op {
	case token.EQL:
		return eqVals(g, x, y)
	case token.NEQ:
		return notB(eqVals(g, x, y))
	}
	panic(fmt.Sprintf("binop %v on %T,%T (%v)", op, x, y, t))
}

func notB(b Bool) Bool {
	if b.T == nil {
		return Bool{C: !b.C}
	}
	return mkBool(Not(b.T))
}

func (g *G) unop(op token.Token, t types.Type, x Value) Value {
	switch a := x.(type) {
	case Int:
		w, _, _ := intWidth(t)
		switch op {
		case token.SUB:
			return mkInt(BVNeg(a.Term(w)))
		case token.XOR:
			return mkInt(BVNot(a.Term(w)))
		}
	case F64:
		if op == token.SUB {
			return mkF64(FPNeg(a.Term()))
		}
	case Bool:
		if op == token.NOT {
			return notB(a)
		}
	}
	panic(fmt.Sprintf("unop %v on %T", op, x))
}

// conv implements ssa.Convert / ChangeType for scalar and string/slice conversions.
func (g *G) conv(dst, src types.Type, x Value) Value {
	du, su := under(dst), under(src)
	// integer source
	if sw, ss, ok := intWidth(src); ok {
		a := x.(Int)
		if dw, _, ok := intWidth(dst); ok {
			at := a.Term(sw)
			switch {
			case dw == sw:
				return mkInt(at)
			case dw < sw:
				return mkInt(Extract(at, dw-1, 0))
			case ss:
				return mkInt(SignExt(at, dw))
			default:
				return mkInt(ZeroExt(at, dw))
			}
		}
		if isFloat(dst) {
			return mkF64(IntToFP(a.Term(sw), ss))
		}
		if isString(dst) {
			if a.T != nil {
				g.inconclusive("string(symbolic rune)")
			}
			r := rune(sext(a.C, sw))
			if sw == 64 && (int64(a.C) > 0x10ffff || int64(a.C) < 0) {
				r = utf8.RuneError
			}
			return S(string(r))
		}
		if b, ok := du.(*types.Basic); ok && b.Kind() == types.UnsafePointer {
			return (*Value)(nil)
		}
	}
	if isFloat(src) {
		a := x.(F64)
		if isFloat(dst) {
			if b := du.(*types.Basic); b.Kind() == types.Float32 && a.T == nil {
				return F64{C: float64(float32(a.C))}
			}
			return a
		}
		if dw, ds, ok := intWidth(dst); ok {
			if a.T == nil {
				// amd64 semantics of out-of-range conversions
				return Int{C: floatToIntAMD64(a.C, dw, ds) & mask(dw)}
			}
			// symbolic: CVTTSD2SI semantics for int64: out of range/NaN -> MinInt64
			// (narrower widths: low bits of the 64-bit conversion, as in floatToIntAMD64)
			sbv := func(t *Term) *Term { return &Term{Op: "fp.to_sbv", S: SBV, W: 64, Args: []*Term{t}} }
			two63, min63 := FPConst(9223372036854775808.0), FPConst(-9223372036854775808.0)
			bad := BVConst(1<<63, 64)
			var r64 *Term
			if ds {
				in := And(FPCmp("fp.geq", a.T, min63), FPCmp("fp.lt", a.T, two63))
				r64 = Ite(in, sbv(a.T), bad)
			} else {
				// mirrors floatToIntAMD64: NaN/negative, >= 2^64, >= 2^63, else
				negOrNaN := Or(FPPred("fp.isNaN", a.T), FPCmp("fp.lt", a.T, FPConst(0)))
				r64 = Ite(negOrNaN, Ite(FPCmp("fp.gt", a.T, min63), sbv(a.T), bad),
					Ite(FPCmp("fp.geq", a.T, FPConst(18446744073709551616.0)), bad,
						Ite(FPCmp("fp.geq", a.T, two63),
							BVBin("bvadd", sbv(FPBin("fp.sub", a.T, two63)), bad),
							sbv(a.T))))
			}
			if dw == 64 {
				return mkInt(r64)
			}
			return mkInt(Extract(r64, dw-1, 0))
		}
	}
	if isString(src) {
		s := x.(Str)
		if isString(dst) {
			return s
		}
		if sl, ok := du.(*types.Slice); ok {
			if b, ok := under(sl.Elem()).(*types.Basic); ok && b.Kind() == types.Uint8 {
				bs, ok := s.Bytes()
				if !ok {
					g.inconclusive("[]byte(opaque string)")
				}
				out := make(Slice, len(bs))
				for i, b := range bs {
					out[i] = mkInt(b)
				}
				return out
			}
			if s.IsConc() { // []rune
				rs := []rune(s.C)
				out := make(Slice, len(rs))
				for i, r := range rs {
					out[i] = Int{C: uint64(uint32(r))}
				}
				return out
			}
		}
	}
	if isString(dst) {
		if _, ok := su.(*types.Slice); ok {
			switch v := x.(type) {
			case Slice:
				bs := make([]*Term, len(v))
				for i, e := range v {
					bs[i] = e.(Int).Term(8)
				}
				if sl := su.(*types.Slice); under(sl.Elem()).(*types.Basic).Kind() != types.Uint8 {
					// []rune
					rs := make([]rune, len(v))
					for i, e := range v {
						rs[i] = rune(e.(Int).C)
					}
					return S(string(rs))
				}
				return strFromBytes(bs)
			case *Blob:
				return v.ToStr(g)
			}
		}
	}
	// same underlying kinds: slices, pointers, structs, funcs, maps, chans...
	return x
}

func floatToIntAMD64(f float64, w int, signed bool) uint64 {
	if signed {
		if f != f || f >= 9223372036854775808.0 || f < -9223372036854775808.0 {
			return 1 << 63
		}
		return uint64(int64(f))
	}
	if f != f || f < 0 {
		// cvttsd2si based sequence; Go on amd64 yields 0x8000000000000000 for NaN/neg out of range
		if f > -9223372036854775808.0 {
			return uint64(int64(f))
		}
		return 1 << 63
	}
	if f >= 18446744073709551616.0 {
		return 1 << 63
	}
	if f >= 9223372036854775808.0 {
		return uint64(int64(f-9223372036854775808.0)) + (1 << 63)
	}
	return uint64(int64(f))
}

var _ = math.Pi
