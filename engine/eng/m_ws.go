package eng

// Model of gorilla/websocket v1.4.2 connections (contract read from conn.go)
// and of the harness peers (package verif: Listener, PeerConn).

import (
	"fmt"
	"go/token"
	"go/types"

	"github.com/gorilla/websocket"
	"golang.org/x/tools/go/ssa"
)

const wsPkg = "github.com/gorilla/websocket"

type wsMsg struct {
	typ       int
	data      *Blob
	truncated bool // the frame is cut off: Read delivers the bytes that arrived, then fails
	partial   bool // only the beginning arrived: Read blocks until the connection goes away, then fails
}

type WSEnd struct {
	id      int
	pair    *WSConnPair
	peer    *WSEnd
	name    string
	inbox   []wsMsg
	readErr Value // sticky (Iface)
	wrErr   Value // sticky (Iface)
	closed  bool  // Close() called on this end
	down    bool  // transport is gone (either side)
	writing *G    // goroutine between NextWriter and writer.Close
	pingH   *Closure
	pongH   *Closure
	closeH  *Closure
	readErrCount int
	deadline Value
	deadlines []Value
	sent    int
	rawSent []wsMsg
	dlExpired bool
	writeLog []string
	rawPeer  bool
	lockset  []int
	locksetInit bool
	unlockedWrites []string
	pongsSeen   int
	deadlineSetsAtLastPong int
	deadlineSets int
	torn         int
	// write deadline (gorilla keeps the last SetWriteDeadline value for every later data write):
	// while one is set, a flush that is blocked by a peer that does not read may time out — an
	// optional environment event — which makes the write error sticky
	wdlSet       bool
	wdlExpired   bool
	flushWaiters int
	ctlDlWaiters int // control writes with a deadline that are currently waiting
	pingsSeen    int
}

type wsWriteDeadlineEv struct{ e *WSEnd }

func (ev wsWriteDeadlineEv) String() string { return "write deadline of " + ev.e.String() + " expires" }
func (ev wsWriteDeadlineEv) fire(r *Run) {
	r.timersFired++
	ev.e.wdlExpired = true
	r.obs = append(r.obs, ev.String()+" while a write is stalled")
}

func (e *WSEnd) flushStalled(r *Run) bool {
	c := r.B.Params["wscap"]
	return c > 0 && !e.down && !e.closed && e.wrErr == nil && len(e.peer.inbox) >= c
}

type WSConnPair struct {
	id     int
	client *WSEnd
	server *WSEnd
	url    string
}

func (e *WSEnd) String() string { return fmt.Sprintf("ws#%d.%s", e.pair.id, e.name) }

func (r *Run) newWSPair(url string) *WSConnPair {
	r.nextObj++
	p := &WSConnPair{id: r.nextObj, url: url}
	p.client = &WSEnd{pair: p, name: "client"}
	p.server = &WSEnd{pair: p, name: "server"}
	p.client.peer, p.server.peer = p.server, p.client
	r.env.pairs = append(r.env.pairs, p)
	return p
}

func (g *G) wsErr(msg string) Value { return g.mkError(S(msg), Iface{}) }

func (g *G) wsCloseErr(code int) Value {
	t := g.run.P.NamedType(wsPkg, "CloseError")
	p := new(Value)
	*p = g.mkStruct(t, map[string]Value{"Code": Int{C: uint64(code)}, "Text": S("")})
	return Iface{T: types.NewPointer(t), V: p}
}

func wsEnd(g *G, v Value) *WSEnd {
	p, _ := v.(*Value)
	if p == nil {
		g.goPanic("runtime error: invalid memory address or nil pointer dereference (nil *websocket.Conn)")
	}
	return (*p).(*WSEnd)
}

func (g *G) wsConnValue(e *WSEnd) Value {
	p := new(Value)
	*p = e
	return p
}

func (e *WSEnd) deliver(m wsMsg) {
	e.peer.inbox = append(e.peer.inbox, m)
	e.sent++
}

// transportDown: both directions are gone; queued messages can still be read.
func (e *WSEnd) dropTransport() {
	e.down = true
	e.peer.down = true
}

// ---- reading ----

type wsReader struct {
	end  *WSEnd
	msg  wsMsg
	done bool
	// a cut-off message first delivers the bytes that did arrive (the beginning of a JSON
	// document), then fails: code that keeps what it read before the error sees that prefix
	gavePrefix bool
}

var cutOffPrefix = []byte(`{"jsonrpc":"2.0","resu`)

func (g *G) wsNextReader(e *WSEnd) Value {
	r := g.run
	if !e.rawPeer && e.readErr == nil {
		// the library starts waiting for a message: is a read deadline in force on this connection?
		armed := false
		if st, ok := e.deadline.(Struct); ok {
			tt := r.P.NamedType("time", "Time")
			wall, _ := fieldByName(tt, st, "wall").(Int)
			ext, _ := fieldByName(tt, st, "ext").(Int)
			armed = !(wall.T == nil && wall.C == 0 && ext.T == nil && ext.C == 0)
		}
		if !armed {
			r.readsWithoutDeadline++
		}
	}
	for {
		g.schedPoint(&Op{desc: "ws.NextReader " + e.String(), obj: e, enabled: func() bool {
			return len(e.inbox) > 0 || e.readErr != nil || e.down || e.dlExpired
		}})
		if e.readErr != nil {
			e.readErrCount++
			if e.readErrCount >= 1000 {
				g.goPanicPlain("repeated read on failed websocket connection")
			}
			return Tuple{I64(-1), Iface{}, e.readErr}
		}
		if e.dlExpired && len(e.inbox) == 0 {
			e.readErr = g.wsErr("read tcp: i/o timeout")
			r.obs = append(r.obs, e.String()+" read deadline expired")
			continue
		}
		if len(e.inbox) == 0 {
			// transport gone
			if e.closed {
				e.readErr = g.wsErr("use of closed network connection")
			} else {
				e.readErr = g.wsCloseErr(websocket.CloseAbnormalClosure)
			}
			continue
		}
		m := e.inbox[0]
		e.inbox = e.inbox[1:]
		switch m.typ {
		case websocket.PingMessage:
			e.pingsSeen++
			if e.pingH != nil {
				res, _ := g.callFn(e.pingH, []Value{S("")}, g.top, token.NoPos).(Iface)
				if res.T != nil {
					e.readErr = res
				}
			} else if !e.down && e.wrErr == nil {
				e.deliver(wsMsg{typ: websocket.PongMessage})
			}
			continue
		case websocket.PongMessage:
			e.pongsSeen++
			e.deadlineSetsAtLastPong = e.deadlineSets
			if e.pongH != nil {
				res, _ := g.callFn(e.pongH, []Value{S("")}, g.top, token.NoPos).(Iface)
				if res.T != nil {
					e.readErr = res
				}
			}
			continue
		case websocket.CloseMessage:
			if e.closeH != nil {
				g.callFn(e.closeH, []Value{Int{C: 1000}, S("")}, g.top, token.NoPos)
			} else if !e.down && e.wrErr == nil {
				e.deliver(wsMsg{typ: websocket.CloseMessage})
				e.wrErr = g.wsErr("websocket: close sent")
			}
			e.readErr = g.wsCloseErr(websocket.CloseNormalClosure)
			continue
		}
		rd := new(Value)
		*rd = &wsReader{end: e, msg: m}
		t := types.NewPointer(r.P.NamedType(wsPkg, "messageReader"))
		return Tuple{Int{C: uint64(m.typ)}, Iface{T: t, V: rd}, Iface{}}
	}
}

// ---- writing ----

type wsWriter struct {
	end    *WSEnd
	typ    int
	buf    *Blob
	closed bool
}

func (g *G) wsBeginWrite(e *WSEnd, typ int) (Value, Value) {
	g.schedPoint(&Op{desc: "ws.NextWriter " + e.String(), obj: e, enabled: func() bool { return true }})
	if e.wrErr != nil {
		return Iface{}, e.wrErr
	}
	if e.writing != nil {
		g.goPanicPlain("concurrent write to websocket connection")
	}
	g.run.recordConnWrite(g, e, "data write")
	e.writing = g
	w := new(Value)
	*w = &wsWriter{end: e, typ: typ, buf: &Blob{}}
	t := types.NewPointer(g.run.P.NamedType(wsPkg, "messageWriter"))
	return Iface{T: t, V: w}, Iface{}
}

func (g *G) wsEndWrite(w *wsWriter) Value {
	e := w.end
	e.flushWaiters++
	g.schedPoint(&Op{desc: "ws.flush " + e.String(), obj: e, enabled: func() bool {
		return !e.flushStalled(g.run) || (e.wdlSet && e.wdlExpired)
	}})
	e.flushWaiters--
	if !w.closed && e.wdlSet && e.wdlExpired && e.flushStalled(g.run) {
		w.closed = true
		if e.writing != nil {
			e.writing = nil
		}
		e.wrErr = g.wsErr("write tcp: i/o timeout")
		return e.wrErr
	}
	if w.closed {
		return g.wsErr("websocket: write closed")
	}
	w.closed = true
	if e.writing == g || e.writing != nil {
		e.writing = nil
	}
	if e.wrErr != nil {
		return e.wrErr
	}
	if e.down || e.closed {
		e.wrErr = g.wsErr("write: broken pipe / use of closed network connection")
		return e.wrErr
	}
	e.writeLog = append(e.writeLog, w.buf.String())
	e.deliver(wsMsg{typ: w.typ, data: w.buf})
	return Iface{}
}

func (g *G) wsWriteControl(e *WSEnd, typ int) Value { return g.wsWriteControlDl(e, typ, false, false) }

// wsWriteControlDl: a control frame written by the library. mayStall: the write can be held
// up by a peer that does not drain its socket (bounded connection capacity); hasDeadline: the
// caller gave a deadline (WriteControl), or the connection has a write deadline stored
// (WriteMessage) — then a stalled write may time out, which gorilla makes sticky.
func (g *G) wsWriteControlDl(e *WSEnd, typ int, mayStall, hasDeadline bool) Value {
	if mayStall {
		if hasDeadline {
			e.ctlDlWaiters++
		}
		g.schedPoint(&Op{desc: fmt.Sprintf("ws.control(%d) %s", typ, e.String()), obj: e, enabled: func() bool {
			return !e.flushStalled(g.run) || (hasDeadline && e.wdlExpired)
		}})
		if hasDeadline {
			e.ctlDlWaiters--
		}
		if hasDeadline && e.wdlExpired && e.flushStalled(g.run) {
			e.wrErr = g.wsErr("write tcp: i/o timeout")
			return e.wrErr
		}
	} else {
		g.schedPoint(&Op{desc: fmt.Sprintf("ws.control(%d) %s", typ, e.String()), obj: e, enabled: func() bool { return true }})
	}
	if e.wrErr != nil {
		return e.wrErr
	}
	if e.down || e.closed {
		e.wrErr = g.wsErr("write: broken pipe / use of closed network connection")
		return e.wrErr
	}
	e.deliver(wsMsg{typ: typ})
	if typ == websocket.CloseMessage {
		if e.writing != nil && e.writing != g {
			// a data message is between begin and flush: its remaining fragments are
			// refused after the close frame, so the peer sees a torn message
			e.torn++
			g.run.obs = append(g.run.obs, e.String()+": close frame sent while a data message was being written (message torn)")
		}
		e.wrErr = g.wsErr("websocket: close sent")
	}
	return Iface{}
}

func init() {
	C := func(name string, f func(g *G, e *WSEnd, fn *ssa.Function, a []Value) Value) {
		reg("(*"+wsPkg+".Conn)."+name, func(g *G, fr *Frame, fn *ssa.Function, a []Value) Value {
			return f(g, wsEnd(g, a[0]), fn, a[1:])
		})
	}
	C("NextReader", func(g *G, e *WSEnd, fn *ssa.Function, a []Value) Value { return g.wsNextReader(e) })
	C("ReadMessage", func(g *G, e *WSEnd, fn *ssa.Function, a []Value) Value {
		res := g.wsNextReader(e).(Tuple)
		if err, _ := res[2].(Iface); err.T != nil {
			return Tuple{res[0], Slice(nil), err}
		}
		content, rerr := g.readAllFrom(res[1].(Iface))
		if rerr == nil {
			rerr = Iface{}
		}
		return Tuple{res[0], content, rerr}
	})
	reg("(*"+wsPkg+".messageReader).Read", func(g *G, fr *Frame, fn *ssa.Function, a []Value) Value {
		rd := (*a[0].(*Value)).(*wsReader)
		if (rd.msg.partial || rd.msg.truncated) && !rd.gavePrefix {
			rd.gavePrefix = true
			if sl, isSlice := a[1].(Slice); !isSlice || len(sl) >= len(cutOffPrefix) {
				n, _ := g.deposit(a[1], blobBytes(cutOffPrefix))
				return Tuple{n, Iface{}}
			}
		}
		if rd.msg.partial {
			e := rd.end
			g.schedPoint(&Op{desc: "ws.read inside a partial message " + e.String(), obj: e, enabled: func() bool { return e.down || e.closed }})
			if e.closed {
				e.readErr = g.wsErr("use of closed network connection")
			} else {
				e.readErr = g.wsErr("unexpected EOF")
			}
			return Tuple{Int{}, e.readErr}
		}
		if rd.msg.truncated {
			rd.end.readErr = g.wsErr("unexpected EOF")
			return Tuple{Int{}, load(g.run.global(g.run.P.Pkgs["io"].Var("ErrUnexpectedEOF")))}
		}
		if rd.done || rd.msg.data == nil || blobEmpty(rd.msg.data) {
			return Tuple{Int{}, g.ioEOF()}
		}
		n, rest := g.deposit(a[1], rd.msg.data)
		if blobEmpty(rest) {
			rd.done = true
		} else {
			rd.msg.data = rest
		}
		return Tuple{n, Iface{}}
	})
	C("NextWriter", func(g *G, e *WSEnd, fn *ssa.Function, a []Value) Value {
		w, err := g.wsBeginWrite(e, int(a[0].(Int).C))
		return Tuple{w, err}
	})
	reg("(*"+wsPkg+".messageWriter).Write", func(g *G, fr *Frame, fn *ssa.Function, a []Value) Value {
		w := (*a[0].(*Value)).(*wsWriter)
		if w.closed {
			return Tuple{Int{}, g.wsErr("websocket: write closed")}
		}
		add := g.asBlob(a[1])
		w.buf = blobConcat(g, w.buf, add)
		return Tuple{add.Len(g), Iface{}}
	})
	reg("(*"+wsPkg+".messageWriter).Close", func(g *G, fr *Frame, fn *ssa.Function, a []Value) Value {
		return g.wsEndWrite((*a[0].(*Value)).(*wsWriter))
	})
	C("WriteJSON", func(g *G, e *WSEnd, fn *ssa.Function, a []Value) Value {
		w, err := g.wsBeginWrite(e, websocket.TextMessage)
		if er, _ := err.(Iface); er.T != nil {
			return er
		}
		ww := (*w.(Iface).V.(*Value)).(*wsWriter)
		b, merr := g.jsonMarshal(a[0])
		if b == nil {
			g.wsEndWrite(ww)
			return merr
		}
		ww.buf = blobConcat(g, b, blobBytes([]byte("\n")))
		return g.wsEndWrite(ww)
	})
	C("WriteMessage", func(g *G, e *WSEnd, fn *ssa.Function, a []Value) Value {
		typ := int(a[0].(Int).C)
		if typ == websocket.PingMessage || typ == websocket.PongMessage || typ == websocket.CloseMessage {
			// WriteMessage sends control frames through the data path (beginMessage/flushFrame),
			// so it must be serialised with the other writers, unlike WriteControl
			if e.wrErr == nil && e.writing != nil {
				g.goPanicPlain("concurrent write to websocket connection")
			}
			g.run.recordConnWrite(g, e, "control write via WriteMessage")
			return g.wsWriteControlDl(e, typ, true, e.wdlSet)
		}
		w, err := g.wsBeginWrite(e, typ)
		if er, _ := err.(Iface); er.T != nil {
			return er
		}
		ww := (*w.(Iface).V.(*Value)).(*wsWriter)
		ww.buf = g.asBlob(a[1])
		return g.wsEndWrite(ww)
	})
	C("WriteControl", func(g *G, e *WSEnd, fn *ssa.Function, a []Value) Value {
		tt := g.run.P.NamedType("time", "Time")
		st := a[2].(Struct)
		wall, _ := fieldByName(tt, st, "wall").(Int)
		ext, _ := fieldByName(tt, st, "ext").(Int)
		zeroT := wall.T == nil && wall.C == 0 && ext.T == nil && ext.C == 0
		return g.wsWriteControlDl(e, int(a[0].(Int).C), true, !zeroT)
	})
	C("Close", func(g *G, e *WSEnd, fn *ssa.Function, a []Value) Value {
		g.schedPoint(&Op{desc: "ws.Close " + e.String(), obj: e, enabled: func() bool { return true }})
		if e.closed {
			return g.wsErr("close: use of closed network connection")
		}
		e.closed = true
		e.dropTransport()
		g.run.obs = append(g.run.obs, e.String()+" closed")
		return Iface{}
	})
	C("SetReadDeadline", func(g *G, e *WSEnd, fn *ssa.Function, a []Value) Value {
		e.deadline = a[0]
		e.deadlineSets++
		e.deadlines = append(e.deadlines, timeExt(g, a[0]))
		e.dlExpired = false
		return Iface{}
	})
	C("SetWriteDeadline", func(g *G, e *WSEnd, fn *ssa.Function, a []Value) Value {
		tt := g.run.P.NamedType("time", "Time")
		st := a[0].(Struct)
		wall, _ := fieldByName(tt, st, "wall").(Int)
		ext, _ := fieldByName(tt, st, "ext").(Int)
		zeroT := wall.T == nil && wall.C == 0 && ext.T == nil && ext.C == 0
		e.wdlSet = !zeroT
		e.wdlExpired = false
		return Iface{}
	})
	C("SetReadLimit", func(g *G, e *WSEnd, fn *ssa.Function, a []Value) Value { return nil })
	C("SetPongHandler", func(g *G, e *WSEnd, fn *ssa.Function, a []Value) Value {
		e.pongH, _ = a[0].(*Closure)
		return nil
	})
	C("SetPingHandler", func(g *G, e *WSEnd, fn *ssa.Function, a []Value) Value {
		e.pingH, _ = a[0].(*Closure)
		return nil
	})
	C("SetCloseHandler", func(g *G, e *WSEnd, fn *ssa.Function, a []Value) Value {
		e.closeH, _ = a[0].(*Closure)
		return nil
	})
	addr := func(g *G, e *WSEnd, fn *ssa.Function, a []Value) Value {
		t := g.run.P.NamedType("net", "TCPAddr")
		p := new(Value)
		*p = zero(t)
		return Iface{T: types.NewPointer(t), V: p}
	}
	C("LocalAddr", addr)
	C("RemoteAddr", addr)
	reg("(*net.TCPAddr).String", func(g *G, fr *Frame, fn *ssa.Function, a []Value) Value { return S("127.0.0.1:0") })
	reg("(*net.TCPAddr).Network", func(g *G, fr *Frame, fn *ssa.Function, a []Value) Value { return S("tcp") })
	reg(wsPkg+".FormatCloseMessage", func(g *G, fr *Frame, fn *ssa.Function, a []Value) Value {
		b := websocket.FormatCloseMessage(int(a[0].(Int).C), concStr(g, a[1]))
		return blobBytes(b)
	})
	closeCode := func(g *G, v Value) (int, bool) {
		e, _ := v.(Iface)
		t := g.run.P.NamedType(wsPkg, "CloseError")
		if e.T == nil || !types.Identical(e.T, types.NewPointer(t)) {
			return 0, false
		}
		p, _ := e.V.(*Value)
		if p == nil {
			return 0, false
		}
		return int(fieldByName(t, (*p).(Struct), "Code").(Int).C), true
	}
	reg(wsPkg+".IsCloseError", func(g *G, fr *Frame, fn *ssa.Function, a []Value) Value {
		code, ok := closeCode(g, a[0])
		if !ok {
			return Bool{C: false}
		}
		for _, c := range a[1].(Slice) {
			if int(c.(Int).C) == code {
				return Bool{C: true}
			}
		}
		return Bool{C: false}
	})
	reg(wsPkg+".IsUnexpectedCloseError", func(g *G, fr *Frame, fn *ssa.Function, a []Value) Value {
		code, ok := closeCode(g, a[0])
		if !ok {
			return Bool{C: false}
		}
		for _, c := range a[1].(Slice) {
			if int(c.(Int).C) == code {
				return Bool{C: false}
			}
		}
		return Bool{C: true}
	})
	reg("(*"+wsPkg+".CloseError).Error", func(g *G, fr *Frame, fn *ssa.Function, a []Value) Value {
		return S("websocket: close error")
	})

	// ---- dialing and upgrading ----
	reg("(*"+wsPkg+".Dialer).Dial", func(g *G, fr *Frame, fn *ssa.Function, a []Value) Value {
		url := concStr(g, a[1])
		env := g.run.env
		g.schedPoint(&Op{desc: "ws.dial " + url, enabled: func() bool { return true }})
		env.dialLog = append(env.dialLog, url)
		// spacing of redials: a dial to a URL that was dialled before, with no sleep in between
		if env.sleepsAtDial == nil {
			env.sleepsAtDial = map[string]int{}
		}
		if prev, ok := env.sleepsAtDial[url]; ok && prev == len(g.run.sleepLog) {
			env.unbackedDials++
			g.run.obs = append(g.run.obs, "redial of "+url+" without any backoff sleep since the previous dial")
		}
		env.sleepsAtDial[url] = len(g.run.sleepLog)
		l := env.listeners[url]
		fail := func(why string) Value {
			g.run.obs = append(g.run.obs, "dial "+url+" fails: "+why)
			return Tuple{(*Value)(nil), (*Value)(nil), g.wsErr("dial " + url + ": " + why)}
		}
		if l == nil {
			return fail("no listener")
		}
		l.dials++
		if l.closed {
			return fail("connection refused")
		}
		if l.failNext > 0 {
			l.failNext--
			return fail("connection refused (scripted)")
		}
		pair := g.run.newWSPair(url)
		g.run.obs = append(g.run.obs, fmt.Sprintf("dial %s ok -> ws#%d", url, pair.id))
		if l.handler != nil {
			g.spawnServerConn(l, pair)
		} else {
			l.pending = append(l.pending, pair)
		}
		return Tuple{g.wsConnValue(pair.client), (*Value)(nil), Iface{}}
	})
	reg("(*"+wsPkg+".Upgrader).Upgrade", func(g *G, fr *Frame, fn *ssa.Function, a []Value) Value {
		w, _ := a[1].(Iface)
		var pair *WSConnPair
		if w.T != nil {
			if p, ok := w.V.(*Value); ok && p != nil {
				if s, ok := (*p).(Struct); ok && len(s) > 0 {
					if id, ok := s[len(s)-1].(Int); ok {
						for _, c := range g.run.env.pairs {
							if c.id == int(id.C) {
								pair = c
							}
						}
					}
				}
			}
		}
		if pair == nil {
			return Tuple{(*Value)(nil), g.wsErr("websocket: the client is not using the websocket protocol")}
		}
		return Tuple{g.wsConnValue(pair.server), Iface{}}
	})
}

// ---- harness peers ----

type Listener struct {
	url      string
	pending  []*WSConnPair
	failNext int
	closed   bool
	dials    int
	handler  Value // http.Handler (Iface) for ServeWS
	ctx      Value
	accepted int
}

type HTTPMount struct{ handler Value }

// spawnServerConn runs handler.ServeHTTP(w, r) for an upgrade request in a new goroutine.
func (g *G) spawnServerConn(l *Listener, pair *WSConnPair) {
	r := g.run
	P := r.P
	rt := P.NamedType("net/http", "Request")
	hdr := &MapV{KT: types.Typ[types.String]}
	g.mapSet(hdr, S("Connection"), Slice{S("Upgrade")})
	g.mapSet(hdr, S("Upgrade"), Slice{S("websocket")})
	ctx := l.ctx
	if ctx == nil {
		ctx = baseIntrinsics["context.Background"](g, nil, nil, nil)
	}
	req := new(Value)
	*req = g.mkStruct(rt, map[string]Value{"Method": S("GET"), "Header": hdr, "RemoteAddr": S("peer"), "ctx": ctx, "Proto": S("HTTP/1.1")})
	wt := P.NamedType(VerifPkg, "WSResponseWriter")
	wv := new(Value)
	*wv = g.mkStruct(wt, map[string]Value{"Hdr": &MapV{KT: types.Typ[types.String]}, "ConnID": Int{C: uint64(pair.id)}})
	h := l.handler.(Iface)
	fn := g.findMethod(h.T, "ServeHTTP")
	ng := r.newG("server-conn:"+h.T.String(), false)
	ng.daemon = false
	ng.serverConn = true
	r.startG(ng, func() {
		ng.callFn(&Closure{Fn: fn}, []Value{h.V, Iface{T: types.NewPointer(wt), V: wv}, req}, nil, token.NoPos)
	})
}

func listenerOf(g *G, v Value) *Listener {
	p, _ := v.(*Value)
	if p == nil {
		g.goPanic("nil *verif.Listener")
	}
	return (*p).(*Listener)
}

func init() {
	regV("ListenWS", func(g *G, a []Value) Value {
		r := g.run
		r.nextObj++
		l := &Listener{url: fmt.Sprintf("ws://peer%d/rpc", r.nextObj)}
		r.env.listeners[l.url] = l
		p := new(Value)
		*p = l
		return p
	})
	regV("ServeWS", func(g *G, a []Value) Value {
		r := g.run
		r.nextObj++
		l := &Listener{url: fmt.Sprintf("ws://server%d/rpc", r.nextObj), handler: a[0]}
		r.env.listeners[l.url] = l
		stop := &Closure{Name: "stopServeWS", Native: func(g *G, args []Value) Value { l.closed = true; return nil }}
		return Tuple{S(l.url), stop}
	})
	L := func(name string, f func(g *G, l *Listener, a []Value) Value) {
		reg("(*"+VerifPkg+".Listener)."+name, func(g *G, fr *Frame, fn *ssa.Function, a []Value) Value {
			return f(g, listenerOf(g, a[0]), a[1:])
		})
	}
	L("URL", func(g *G, l *Listener, a []Value) Value { return S(l.url) })
	L("FailNext", func(g *G, l *Listener, a []Value) Value { l.failNext = int(a[0].(Int).C); return nil })
	L("Close", func(g *G, l *Listener, a []Value) Value { l.closed = true; return nil })
	L("Open", func(g *G, l *Listener, a []Value) Value { l.closed = false; return nil })
	L("Dials", func(g *G, l *Listener, a []Value) Value { return I64(int64(l.dials)) })
	L("Accept", func(g *G, l *Listener, a []Value) Value {
		g.schedPoint(&Op{desc: "peer.Accept " + l.url, obj: l, enabled: func() bool { return len(l.pending) > 0 }})
		pair := l.pending[0]
		l.pending = l.pending[1:]
		l.accepted++
		pair.server.rawPeer = true
		return g.wsConnValue(pair.server)
	})
	L("TryAccept", func(g *G, l *Listener, a []Value) Value {
		if len(l.pending) == 0 {
			return (*Value)(nil)
		}
		pair := l.pending[0]
		l.pending = l.pending[1:]
		l.accepted++
		return g.wsConnValue(pair.server)
	})
	regV("DialRaw", func(g *G, a []Value) Value {
		r := g.run
		r.nextObj++
		l := &Listener{url: fmt.Sprintf("ws://rawtarget%d/rpc", r.nextObj), handler: a[0]}
		if len(a) > 1 {
			if c, ok := a[1].(Iface); ok && c.T != nil {
				l.ctx = c
			}
		}
		pair := r.newWSPair(l.url)
		g.spawnServerConn(l, pair)
		g.schedPoint(&Op{desc: "raw dial", enabled: func() bool { return true }})
		pair.client.rawPeer = true
		return g.wsConnValue(pair.client)
	})
	PC := func(name string, f func(g *G, e *WSEnd, a []Value) Value) {
		reg("(*"+VerifPkg+".PeerConn)."+name, func(g *G, fr *Frame, fn *ssa.Function, a []Value) Value {
			return f(g, wsEnd(g, a[0]), a[1:])
		})
	}
	PC("Recv", func(g *G, e *WSEnd, a []Value) Value {
		res := g.wsNextReader(e).(Tuple)
		if err, _ := res[2].(Iface); err.T != nil {
			return Tuple{Slice(nil), Bool{C: false}}
		}
		content, rerr := g.readAllFrom(res[1].(Iface))
		if rerr != nil {
			return Tuple{Slice(nil), Bool{C: false}}
		}
		return Tuple{content, Bool{C: true}}
	})
	PC("Send", func(g *G, e *WSEnd, a []Value) Value {
		w, err := g.wsBeginWrite(e, websocket.TextMessage)
		if er, _ := err.(Iface); er.T != nil {
			return Bool{C: false}
		}
		ww := (*w.(Iface).V.(*Value)).(*wsWriter)
		ww.buf = g.asBlob(a[0])
		res, _ := g.wsEndWrite(ww).(Iface)
		return Bool{C: res.T == nil}
	})
	PC("SendBinary", func(g *G, e *WSEnd, a []Value) Value {
		w, err := g.wsBeginWrite(e, websocket.BinaryMessage)
		if er, _ := err.(Iface); er.T != nil {
			return Bool{C: false}
		}
		ww := (*w.(Iface).V.(*Value)).(*wsWriter)
		ww.buf = g.asBlob(a[0])
		res, _ := g.wsEndWrite(ww).(Iface)
		return Bool{C: res.T == nil}
	})
	PC("SendPing", func(g *G, e *WSEnd, a []Value) Value {
		res, _ := g.wsWriteControl(e, websocket.PingMessage).(Iface)
		return Bool{C: res.T == nil}
	})
	PC("SendPong", func(g *G, e *WSEnd, a []Value) Value {
		res, _ := g.wsWriteControl(e, websocket.PongMessage).(Iface)
		return Bool{C: res.T == nil}
	})
	PC("CloseGraceful", func(g *G, e *WSEnd, a []Value) Value {
		g.wsWriteControl(e, websocket.CloseMessage)
		g.schedPoint(&Op{desc: "peer close " + e.String(), obj: e, enabled: func() bool { return true }})
		e.closed = true
		e.dropTransport()
		return nil
	})
	PC("Abort", func(g *G, e *WSEnd, a []Value) Value {
		g.schedPoint(&Op{desc: "peer abort " + e.String(), obj: e, enabled: func() bool { return true }})
		e.closed = true
		e.dropTransport()
		g.run.obs = append(g.run.obs, e.String()+" aborted by peer")
		return nil
	})
	PC("SendTruncated", func(g *G, e *WSEnd, a []Value) Value {
		g.schedPoint(&Op{desc: "peer truncated frame " + e.String(), obj: e, enabled: func() bool { return true }})
		if !e.down {
			e.deliver(wsMsg{typ: websocket.TextMessage, truncated: true})
		}
		e.closed = true
		e.dropTransport()
		g.run.obs = append(g.run.obs, e.String()+" truncated frame then reset")
		return nil
	})
	PC("SendPartial", func(g *G, e *WSEnd, a []Value) Value {
		g.schedPoint(&Op{desc: "peer partial message " + e.String(), obj: e, enabled: func() bool { return true }})
		if !e.down {
			e.deliver(wsMsg{typ: websocket.TextMessage, partial: true})
		}
		return nil
	})
	PC("Pings", func(g *G, e *WSEnd, a []Value) Value { return I64(int64(e.pingsSeen)) })
	PC("Sent", func(g *G, e *WSEnd, a []Value) Value { return I64(int64(e.peer.sent)) })
}

func init() {
	// AtStep: wait until a chosen number of visible operations have been performed
	// by other goroutines (or nothing else can move): enumerates "instants".
	regV("AtStep", func(g *G, a []Value) Value {
		r := g.run
		name := concStr(g, a[0])
		max := int(a[1].(Int).C)
		k := r.choose("choice:"+name, max+1)
		target := r.visibleOps + k
		g.schedPoint(&Op{desc: fmt.Sprintf("atstep %s=%d", name, k), waitStep: true, enabled: func() bool {
			if r.visibleOps >= target {
				return true
			}
			// enabled as a last resort when nobody else can move
			for _, x := range r.gs {
				if x != g && !x.done && x.op != nil && !x.op.waitStep && !x.op.isQuiesce && (x.op.completed || x.op.enabled()) {
					return false
				}
			}
			return true
		}})
		return nil
	})
}

func init() {
	regV("Yield", func(g *G, a []Value) Value {
		// park behind everything currently runnable (free of charge: it is harness code asking for it)
		r := g.run
		target := r.visibleOps + 1
		g.schedPoint(&Op{desc: "yield", waitStep: true, enabled: func() bool {
			if r.visibleOps > target+8 {
				return true
			}
			for _, x := range r.gs {
				if x != g && !x.done && x.op != nil && !x.op.waitStep && !x.op.isQuiesce && (x.op.completed || x.op.enabled()) {
					return false
				}
			}
			return true
		}})
		return nil
	})
}

func init() {
	// pongs received by library-side connection ends after which the read deadline was not renewed
	regV("PongsIgnored", func(g *G, a []Value) Value {
		n := 0
		for _, p := range g.run.env.pairs {
			for _, e := range []*WSEnd{p.client, p.server} {
				if e.rawPeer || e.closed || e.down {
					continue
				}
				if e.pongsSeen > 0 && e.deadlineSets == e.deadlineSetsAtLastPong {
					n++
					g.run.obs = append(g.run.obs, e.String()+": pong received but the read deadline was not renewed afterwards")
				}
			}
		}
		return I64(int64(n))
	})
}

func init() {
	regV("TornMessages", func(g *G, a []Value) Value {
		n := 0
		for _, p := range g.run.env.pairs {
			n += p.client.torn + p.server.torn
		}
		return I64(int64(n))
	})
}
