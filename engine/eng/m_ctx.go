package eng

// Model of package context: cancel trees and value chains as scheduler objects.

import (
	"go/types"

	"golang.org/x/tools/go/ssa"
)

type CtxObj struct {
	id       int
	kind     string // background, cancel, value
	parent   *CtxObj
	done     *Chan
	err      Value // Iface
	key, val Value
	children []*CtxObj
	name     string
	cause    Value
	afterFuncs []func(g *G)
	values   *CtxObj // WithoutCancel: where values are looked up
}

func (c *CtxObj) parentCanceler() *CtxObj {
	if c.parent == nil {
		return nil
	}
	return c.parent.canceler()
}

func (c *CtxObj) String() string { return "ctx#" + itoa(c.id) + "(" + c.kind + ")" }

func itoa(i int) string {
	if i == 0 {
		return "0"
	}
	neg := i < 0
	if neg {
		i = -i
	}
	var b []byte
	for i > 0 {
		b = append([]byte{byte('0' + i%10)}, b...)
		i /= 10
	}
	if neg {
		b = append([]byte{'-'}, b...)
	}
	return string(b)
}

func (g *G) ctxIface(c *CtxObj) Value {
	p := new(Value)
	*p = c
	var t types.Type
	switch c.kind {
	case "cancel":
		t = types.NewPointer(g.run.P.NamedType("context", "cancelCtx"))
	case "value":
		t = types.NewPointer(g.run.P.NamedType("context", "valueCtx"))
	default:
		t = types.NewPointer(g.run.P.NamedType("context", "emptyCtx"))
		if g.run.P.Pkgs["context"].Pkg.Scope().Lookup("emptyCtx") == nil {
			t = types.NewPointer(g.run.P.NamedType("context", "backgroundCtx"))
		}
	}
	return Iface{T: t, V: p}
}

func (g *G) ctxObj(v Value) *CtxObj {
	switch x := v.(type) {
	case Iface:
		if x.T == nil {
			g.goPanic("runtime error: invalid memory address or nil pointer dereference (nil Context)")
		}
		return g.ctxObj(x.V)
	case *Value:
		if x == nil {
			g.goPanic("runtime error: invalid memory address or nil pointer dereference (nil Context)")
		}
		if c, ok := (*x).(*CtxObj); ok {
			return c
		}
	case *CtxObj:
		return x
	}
	g.inconclusive("context implementation outside the model")
	return nil
}

func (c *CtxObj) canceler() *CtxObj {
	for x := c; x != nil; x = x.parent {
		if x.kind == "cancel" {
			return x
		}
	}
	return nil
}

func (g *G) ctxCancel(c *CtxObj, err Value) {
	if c.err != nil {
		return
	}
	c.err = err
	if !c.done.closed {
		g.hbRelease(c.done)
		c.done.closed = true
	}
	g.run.obs = append(g.run.obs, c.String()+" cancelled")
	afs := c.afterFuncs
	c.afterFuncs = nil
	for _, f := range afs {
		f(g)
	}
	for _, ch := range c.children {
		g.ctxCancel(ch, err)
	}
}

func (g *G) newCancelCtx(parent *CtxObj) *CtxObj {
	r := g.run
	r.nextObj++
	c := &CtxObj{id: r.nextObj, kind: "cancel", parent: parent, done: r.newChan(0, types.NewStruct(nil, nil))}
	if pc := parent.canceler(); pc != nil {
		if pc.err != nil {
			c.err = pc.err
			c.done.closed = true
		} else {
			pc.children = append(pc.children, c)
		}
	}
	return c
}

func (g *G) canceledErr() Value {
	gl := g.run.P.Pkgs["context"].Var("Canceled")
	return load(g.run.global(gl))
}

func init() {
	bg := func(g *G, fr *Frame, fn *ssa.Function, a []Value) Value {
		r := g.run
		r.nextObj++
		return g.ctxIface(&CtxObj{id: r.nextObj, kind: "background"})
	}
	reg("context.Background", bg)
	reg("context.TODO", bg)
	reg("context.WithCancel", func(g *G, fr *Frame, fn *ssa.Function, a []Value) Value {
		parent := g.ctxObj(a[0])
		c := g.newCancelCtx(parent)
		cancel := &Closure{Name: "cancel:" + c.String(), Native: func(g *G, args []Value) Value {
			g.schedPoint(&Op{desc: "cancel " + c.String(), obj: c, enabled: func() bool { return true }})
			g.ctxCancel(c, g.canceledErr())
			return nil
		}}
		return Tuple{g.ctxIface(c), cancel}
	})
	withDeadline := func(g *G, fr *Frame, fn *ssa.Function, a []Value) Value {
		g.model("context.WithTimeout/WithDeadline: deadline never fires on its own (untimed)")
		parent := g.ctxObj(a[0])
		c := g.newCancelCtx(parent)
		cancel := &Closure{Name: "cancel:" + c.String(), Native: func(g *G, args []Value) Value {
			g.schedPoint(&Op{desc: "cancel " + c.String(), obj: c, enabled: func() bool { return true }})
			g.ctxCancel(c, g.canceledErr())
			return nil
		}}
		return Tuple{g.ctxIface(c), cancel}
	}
	reg("context.WithTimeout", withDeadline)
	reg("context.WithDeadline", withDeadline)
	reg("context.WithValue", func(g *G, fr *Frame, fn *ssa.Function, a []Value) Value {
		parent := g.ctxObj(a[0])
		k := a[1].(Iface)
		if k.T == nil {
			g.goPanicPlain("nil key")
		}
		if !types.Comparable(k.T) {
			g.goPanicPlain("key is not comparable")
		}
		r := g.run
		r.nextObj++
		return g.ctxIface(&CtxObj{id: r.nextObj, kind: "value", parent: parent, key: k, val: a[2]})
	})
	for _, tn := range []string{"(*context.cancelCtx)", "(*context.valueCtx)", "(*context.emptyCtx)", "(*context.backgroundCtx)", "(context.backgroundCtx)", "(context.emptyCtx)"} {
		reg(tn+".Done", func(g *G, fr *Frame, fn *ssa.Function, a []Value) Value {
			c := g.ctxObj(a[0]).canceler()
			if c == nil {
				return (*Chan)(nil)
			}
			return c.done
		})
		reg(tn+".Err", func(g *G, fr *Frame, fn *ssa.Function, a []Value) Value {
			c := g.ctxObj(a[0]).canceler()
			if c == nil {
				return Iface{}
			}
			g.schedPoint(&Op{desc: "ctx.Err " + c.String(), obj: c, enabled: func() bool { return true }})
			if c.err == nil {
				return Iface{}
			}
			return c.err
		})
		reg(tn+".Value", func(g *G, fr *Frame, fn *ssa.Function, a []Value) Value {
			k := a[1]
			for c := g.ctxObj(a[0]); c != nil; c = c.parent {
				if c.kind == "value" && g.branch(eqVals(g, c.key, k)) {
					return c.val
				}
				if c.values != nil {
					c = &CtxObj{parent: c.values}
				}
			}
			return Iface{}
		})
		reg(tn+".Deadline", func(g *G, fr *Frame, fn *ssa.Function, a []Value) Value {
			return Tuple{zero(fn.Signature.Results().At(0).Type()), Bool{C: false}}
		})
	}
}
