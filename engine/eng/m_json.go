package eng

// Structural model of encoding/json over Docs. Text-level behaviour (escaping,
// number formatting) is delegated to the real encoding/json for concrete leaves
// and trusted for symbolic ones.

import (
	"encoding/base64"
	"encoding/json"
	"fmt"
	"go/token"
	"go/types"
	"math"
	"sort"
	"strconv"
	"strings"

	"golang.org/x/tools/go/ssa"
)

// ---------------- parsing blobs into docs ----------------

type jcur struct {
	segs []BSeg
	si   int
	bi   int
	g    *G
	symi int // index inside a Sym segment
}

type jinc struct{ msg string } // the text cannot be decided structurally (symbolic structural bytes)

type jsynErr struct{ msg string }

func (c *jcur) peek() (byte, *Doc, bool) { // returns next byte or doc token; ok=false at end
	for c.si < len(c.segs) {
		s := c.segs[c.si]
		switch {
		case s.D != nil:
			return 0, s.D, true
		case s.Pad != nil:
			c.si++
			continue
		case s.Sym != nil:
			panic(jinc{"symbolic bytes where JSON structure is expected"})
		case s.Opq != nil:
			panic(jsynErr{"opaque bytes in JSON text"})
		default:
			if c.bi < len(s.B) {
				return s.B[c.bi], nil, true
			}
			c.si++
			c.bi = 0
		}
	}
	return 0, nil, false
}

func (c *jcur) adv() {
	s := c.segs[c.si]
	if s.D != nil {
		c.si++
		c.bi = 0
		return
	}
	c.bi++
}

func (c *jcur) skipWS() {
	for {
		b, d, ok := c.peek()
		if !ok || d != nil {
			return
		}
		if b == ' ' || b == '\t' || b == '\n' || b == '\r' {
			c.adv()
			continue
		}
		return
	}
}

func (c *jcur) fail(format string, a ...interface{}) { panic(jsynErr{fmt.Sprintf(format, a...)}) }

func (c *jcur) lit(word string) {
	for i := 0; i < len(word); i++ {
		b, d, ok := c.peek()
		if !ok {
			c.fail("unexpected end of JSON input")
		}
		if d != nil || b != word[i] {
			c.fail("invalid character %q in literal %s (expecting %q)", b, word, word[i])
		}
		c.adv()
	}
}

func (c *jcur) value() *Doc {
	c.skipWS()
	b, d, ok := c.peek()
	if !ok {
		c.fail("unexpected end of JSON input")
	}
	if d != nil {
		c.adv()
		return d
	}
	switch {
	case b == '{':
		c.adv()
		o := &Doc{K: DObj}
		c.skipWS()
		if b2, d2, ok := c.peek(); ok && d2 == nil && b2 == '}' {
			c.adv()
			return o
		}
		for {
			c.skipWS()
			kb, kd, ok := c.peek()
			if !ok {
				c.fail("unexpected end of JSON input")
			}
			var key string
			if kd != nil {
				if kd.K != DStr || !kd.S.IsConc() {
					c.fail("invalid object key")
				}
				key = kd.S.C
				c.adv()
			} else {
				if kb != '"' {
					c.fail("invalid character %q looking for beginning of object key string", kb)
				}
				key = c.str()
			}
			c.skipWS()
			cb, cd, ok := c.peek()
			if !ok {
				c.fail("unexpected end of JSON input")
			}
			if cd != nil || cb != ':' {
				c.fail("invalid character %q after object key", cb)
			}
			c.adv()
			v := c.value()
			o.Keys = append(o.Keys, key)
			o.Vals = append(o.Vals, v)
			c.skipWS()
			nb, nd, ok := c.peek()
			if !ok {
				c.fail("unexpected end of JSON input")
			}
			if nd != nil {
				c.fail("invalid token after object key:value pair")
			}
			c.adv()
			if nb == ',' {
				continue
			}
			if nb == '}' {
				return o
			}
			c.fail("invalid character %q after object key:value pair", nb)
		}
	case b == '[':
		c.adv()
		a := &Doc{K: DArr}
		c.skipWS()
		if b2, d2, ok := c.peek(); ok && d2 == nil && b2 == ']' {
			c.adv()
			return a
		}
		for {
			a.Elems = append(a.Elems, c.value())
			c.skipWS()
			nb, nd, ok := c.peek()
			if !ok {
				c.fail("unexpected end of JSON input")
			}
			if nd != nil {
				c.fail("invalid token after array element")
			}
			c.adv()
			if nb == ',' {
				continue
			}
			if nb == ']' {
				return a
			}
			c.fail("invalid character %q after array element", nb)
		}
	case b == '"':
		return &Doc{K: DStr, S: c.strLit()}
	case b == 't':
		c.lit("true")
		return &Doc{K: DBool, B: Bool{C: true}}
	case b == 'f':
		c.lit("false")
		return &Doc{K: DBool, B: Bool{C: false}}
	case b == 'n':
		c.lit("null")
		return &Doc{K: DNull}
	case b == '-' || (b >= '0' && b <= '9'):
		var sb strings.Builder
		for {
			nb, nd, ok := c.peek()
			if !ok || nd != nil || !strings.ContainsRune("+-0123456789.eE", rune(nb)) {
				break
			}
			sb.WriteByte(nb)
			c.adv()
		}
		l := sb.String()
		if !json.Valid([]byte(l)) {
			c.fail("invalid number literal %q", l)
		}
		return &Doc{K: DNum, Lit: l}
	}
	c.fail("invalid character %q looking for beginning of value", b)
	return nil
}

// strTok returns the next element inside a string literal: a concrete byte or a symbolic one.
func (c *jcur) strTok() (byte, *Term, bool) {
	for c.si < len(c.segs) {
		s := c.segs[c.si]
		switch {
		case s.D != nil:
			c.fail("document token inside string literal")
		case s.Pad != nil || s.Opq != nil:
			panic(jinc{"padding/opaque bytes inside a string literal"})
		case s.Sym != nil:
			if c.symi < len(s.Sym) {
				t := s.Sym[c.symi]
				c.symi++
				if t.IsConst() {
					return byte(t.BV), nil, true
				}
				return 0, t, true
			}
			c.si++
			c.symi = 0
		default:
			if c.bi < len(s.B) {
				b := s.B[c.bi]
				c.bi++
				return b, nil, true
			}
			c.si++
			c.bi = 0
		}
	}
	return 0, nil, false
}

// strLit parses a string literal whose opening quote is the next byte. Symbolic
// bytes are classified by forking (quote / backslash / control / ordinary).
func (c *jcur) strLit() Str {
	c.adv() // opening quote (concrete)
	var out []*Term
	var run []byte // pending concrete raw text (may contain escapes)
	flush := func() {
		if len(run) == 0 {
			return
		}
		var dec string
		if err := json.Unmarshal(append(append([]byte{'"'}, run...), '"'), &dec); err != nil {
			c.fail("%s", err.Error())
		}
		for i := 0; i < len(dec); i++ {
			out = append(out, BVConst(uint64(dec[i]), 8))
		}
		run = nil
	}
	for {
		b, t, ok := c.strTok()
		if !ok {
			c.fail("unexpected end of JSON input")
		}
		if t == nil {
			if b == '"' {
				flush()
				return strFromBytes(out)
			}
			if b == '\\' {
				nb, nt, ok := c.strTok()
				if !ok {
					c.fail("unexpected end of JSON input")
				}
				if nt != nil {
					if c.g == nil {
						panic(jinc{"symbolic escape character in a string literal"})
					}
					found := false
					for _, cand := range []byte{'"', '\\', '/', 'b', 'f', 'n', 'r', 't', 'u'} {
						if c.g.branch(mkBool(Eq(nt, BVConst(uint64(cand), 8)))) {
							nb, found = cand, true
							break
						}
					}
					if !found {
						c.fail("invalid escape in string literal")
					}
				}
				run = append(run, b, nb)
				if nb == 'u' {
					for k := 0; k < 4; k++ {
						hb, ht, ok := c.strTok()
						if !ok {
							c.fail("unexpected end of JSON input")
						}
						if ht != nil {
							panic(jinc{"symbolic hex digit in a string literal"})
						}
						run = append(run, hb)
					}
				}
				continue
			}
			if b < 0x20 {
				c.fail("invalid character %q in string literal", b)
			}
			run = append(run, b)
			continue
		}
		if c.g == nil {
			panic(jinc{"symbolic byte in a string literal"})
		}
		g := c.g
		switch {
		case g.branch(mkBool(Eq(t, BVConst('"', 8)))):
			flush()
			return strFromBytes(out)
		case g.branch(mkBool(Eq(t, BVConst('\\', 8)))):
			panic(jinc{"symbolic backslash in a string literal"})
		case g.branch(mkBool(BVCmp("bvult", t, BVConst(0x20, 8)))):
			c.fail("invalid character (control) in string literal")
		default:
			flush()
			out = append(out, t)
		}
	}
}

func (c *jcur) str() string {
	s := c.strLit()
	if !s.IsConc() {
		c.fail("invalid object key")
	}
	return s.C
}

// parseFirst parses the first JSON value of b. rest is what follows it.
func parseFirst(g *G, b *Blob) (d *Doc, rest *Blob, errMsg string) {
	c := &jcur{segs: b.Segs, g: g}
	defer func() {
		if p := recover(); p != nil {
			if e, ok := p.(jsynErr); ok {
				d, rest, errMsg = nil, nil, e.msg
				return
			}
			if e, ok := p.(jinc); ok {
				if g != nil {
					g.inconclusive("JSON text not decidable: " + e.msg)
				}
				d, rest, errMsg = nil, nil, e.msg
				return
			}
			panic(p)
		}
	}()
	d = c.value()
	if b.bk != nil {
		d.setBacking(b.bk, b.bgen)
	}
	var rs []BSeg
	if c.si < len(c.segs) {
		s := c.segs[c.si]
		if s.D == nil && s.Sym == nil && s.Pad == nil && s.Opq == nil {
			if c.bi < len(s.B) {
				rs = append(rs, BSeg{B: s.B[c.bi:]})
			}
		} else if s.Sym != nil {
			if c.symi < len(s.Sym) {
				rs = append(rs, BSeg{Sym: s.Sym[c.symi:]})
			}
		} else {
			rs = append(rs, s)
		}
		rs = append(rs, c.segs[c.si+1:]...)
	}
	return d, &Blob{Segs: rs}, ""
}

// parseWhole requires exactly one value (plus whitespace).
func parseWhole(g *G, b *Blob) (*Doc, string) {
	d, rest, e := parseFirst(g, b)
	if e != "" {
		return nil, e
	}
	if len(rest.trimSpace().Segs) != 0 {
		if bs, ok := rest.trimSpace().ConcreteBytes(); ok && len(bs) > 0 {
			return nil, fmt.Sprintf("invalid character %q after top-level value", bs[0])
		}
		return nil, "invalid data after top-level value"
	}
	return d, ""
}

// ---------------- marshal ----------------

type jenc struct {
	g   *G
	err Value // first error (Iface), nil if none
}

func (p *Program) jsonIface(name string) *types.Interface {
	return under(p.NamedType("encoding/json", name)).(*types.Interface)
}

func (e *jenc) fail(msg string) *Doc {
	if e.err == nil {
		e.err = e.g.mkError(S(msg), Iface{})
	}
	return &Doc{K: DNull}
}

func isUUID(t types.Type) bool { return isNamed(t, "github.com/google/uuid", "UUID") }

func (e *jenc) marshal(v Value, t types.Type, addr *Value) *Doc {
	g := e.g
	P := g.run.P
	if e.err != nil {
		return &Doc{K: DNull}
	}
	mi := P.jsonIface("Marshaler")
	_, isPtr := under(t).(*types.Pointer)
	_, isIf := under(t).(*types.Interface)
	if isUUID(t) {
		return &Doc{K: DStr, S: uuidString(g, v)}
	}
	// pointer-receiver marshaler on addressable value
	if !isPtr && !isIf && addr != nil && types.Implements(types.NewPointer(t), mi) && !types.Implements(t, mi) {
		return e.callMarshaler(addr, types.NewPointer(t))
	}
	if !isIf && types.Implements(t, mi) {
		if isPtr {
			if p, _ := v.(*Value); p == nil {
				return &Doc{K: DNull}
			}
		}
		return e.callMarshaler(v, t)
	}
	switch u := under(t).(type) {
	case *types.Basic:
		switch {
		case u.Info()&types.IsBoolean != 0:
			return &Doc{K: DBool, B: v.(Bool)}
		case u.Info()&types.IsInteger != 0:
			w, signed, _ := intWidth(t)
			iv := v.(Int)
			var x Int
			if signed {
				x = mkInt(SignExt(iv.Term(w), 64))
			} else {
				x = mkInt(ZeroExt(iv.Term(w), 64))
			}
			return &Doc{K: DNum, NI: &x, NSigned: signed}
		case u.Info()&types.IsFloat != 0:
			f := v.(F64)
			if f.T == nil {
				if math.IsNaN(f.C) || math.IsInf(f.C, 0) {
					return e.fail("json: unsupported value: " + strconv.FormatFloat(f.C, 'g', -1, 64))
				}
				b, _ := json.Marshal(f.C)
				return &Doc{K: DNum, Lit: string(b)}
			}
			bad := Or(FPPred("fp.isNaN", f.T), FPPred("fp.isInfinite", f.T))
			if g.branch(mkBool(bad)) {
				return e.fail("json: unsupported value: NaN/Inf")
			}
			return &Doc{K: DNum, NF: &f}
		case u.Info()&types.IsString != 0:
			return &Doc{K: DStr, S: v.(Str)}
		}
	case *types.Pointer:
		p, _ := v.(*Value)
		if p == nil {
			return &Doc{K: DNull}
		}
		return e.marshal(load(p), u.Elem(), p)
	case *types.Interface:
		x, _ := v.(Iface)
		if x.T == nil {
			return &Doc{K: DNull}
		}
		return e.marshal(x.V, x.T, nil)
	case *types.Struct:
		s := v.(Struct)
		var as Struct
		if addr != nil {
			as, _ = (*addr).(Struct)
		}
		o := &Doc{K: DObj}
		for _, f := range jsonFields(t) {
			fv, fa, ok := fieldByPath(s, as, t, f.path)
			if !ok {
				continue // nil embedded pointer
			}
			if f.omitEmpty && g.branch(g.jsonEmpty(fv, f.typ)) {
				continue
			}
			d := e.marshal(fv, f.typ, fa)
			if f.quoted {
				g.inconclusive("json ,string option")
			}
			o.Keys = append(o.Keys, f.name)
			o.Vals = append(o.Vals, d)
		}
		return o
	case *types.Map:
		m, _ := v.(*MapV)
		if m == nil {
			return &Doc{K: DNull}
		}
		type kv struct {
			k string
			v Value
		}
		var kvs []kv
		for i := range m.Keys {
			var ks string
			switch k := m.Keys[i].(type) {
			case Str:
				if !k.IsConc() {
					if len(m.Keys) > 1 {
						g.inconclusive("marshalling a map with several symbolic keys")
					}
					g.inconclusive("marshalling a map with a symbolic key")
				}
				ks = k.C
			case Int:
				if k.T != nil {
					g.inconclusive("marshalling a map with a symbolic key")
				}
				_, signed, _ := intWidth(u.Key())
				if signed {
					ks = strconv.FormatInt(int64(k.C), 10)
				} else {
					ks = strconv.FormatUint(k.C, 10)
				}
			default:
				return e.fail("json: unsupported type: " + typeString(t))
			}
			kvs = append(kvs, kv{ks, m.Vals[i]})
		}
		sort.Slice(kvs, func(i, j int) bool { return kvs[i].k < kvs[j].k })
		o := &Doc{K: DObj}
		for _, x := range kvs {
			o.Keys = append(o.Keys, x.k)
			o.Vals = append(o.Vals, e.marshal(x.v, u.Elem(), nil))
		}
		return o
	case *types.Slice:
		if isNilBytes(v) {
			if _, ok := v.(Slice); ok || v == nil {
				return &Doc{K: DNull}
			}
			if b, ok := v.(*Blob); ok && b == nil {
				return &Doc{K: DNull}
			}
		}
		if isByteSlice(t) {
			if eb, ok := under(u.Elem()).(*types.Basic); ok && eb.Kind() == types.Uint8 && !types.Implements(types.NewPointer(u.Elem()), mi) {
				b := g.asBlob(v)
				bs, ok := b.ConcreteBytes()
				if !ok {
					g.model("base64 of symbolic bytes kept as an opaque string")
					return &Doc{K: DStr, S: Str{Segs: []Seg{{Q: "b64(" + b.String() + ")"}}}}
				}
				return &Doc{K: DStr, S: S(base64.StdEncoding.EncodeToString(bs))}
			}
		}
		sl := v.(Slice)
		a := &Doc{K: DArr, Elems: []*Doc{}}
		for i := range sl {
			a.Elems = append(a.Elems, e.marshal(sl[i], u.Elem(), &sl[i]))
		}
		return a
	case *types.Array:
		arr := v.(Array)
		a := &Doc{K: DArr, Elems: []*Doc{}}
		for i := range arr {
			var ea *Value
			if addr != nil {
				ea = &(*addr).(Array)[i]
			}
			a.Elems = append(a.Elems, e.marshal(arr[i], u.Elem(), ea))
		}
		return a
	}
	return e.fail("json: unsupported type: " + typeString(t))
}

func (e *jenc) callMarshaler(recv Value, t types.Type) *Doc {
	g := e.g
	fn := g.findMethod(t, "MarshalJSON")
	res := g.callFn(&Closure{Fn: fn}, []Value{recv}, g.top, token.NoPos).(Tuple)
	if err, _ := res[1].(Iface); err.T != nil {
		if e.err == nil {
			e.err = g.mkError(strConcat(S("json: error calling MarshalJSON for type "+typeString(t)+": "), g.errorString(err)), err)
		}
		return &Doc{K: DNull}
	}
	b := g.asBlob(res[0])
	d, msg := parseWhole(g, b)
	if msg != "" {
		return e.fail("json: error calling MarshalJSON for type " + typeString(t) + ": " + msg)
	}
	return d
}

func (g *G) jsonEmpty(v Value, t types.Type) Bool {
	switch x := v.(type) {
	case Bool:
		return notB(x)
	case Int, F64:
		return g.isZeroVal(v, t)
	case Str:
		n, ok := x.Len()
		if !ok {
			g.inconclusive("omitempty on opaque string")
		}
		return Bool{C: n == 0}
	case *Value:
		return Bool{C: x == nil}
	case Iface:
		return Bool{C: x.T == nil}
	case Slice:
		return Bool{C: len(x) == 0}
	case *Blob:
		if x == nil {
			return Bool{C: true}
		}
		n := x.Len(g).(Int)
		return mkBool(Eq(n.Term(64), BVConst(0, 64)))
	case *MapV:
		return Bool{C: x.Len() == 0}
	case Array:
		return Bool{C: len(x) == 0}
	}
	return Bool{C: false}
}

type jfield struct {
	name      string
	path      []int
	typ       types.Type
	omitEmpty bool
	quoted    bool
	tagged    bool
}

// jsonFields lists the JSON-visible fields of struct type t (with embedding).
func jsonFields(t types.Type) []jfield {
	type cand struct {
		jfield
		depth int
	}
	var all []cand
	var walk func(t types.Type, path []int, depth int, seen map[types.Type]bool)
	walk = func(t types.Type, path []int, depth int, seen map[types.Type]bool) {
		st, ok := under(t).(*types.Struct)
		if !ok {
			return
		}
		if seen[t] {
			return
		}
		seen[t] = true
		defer delete(seen, t)
		for i := 0; i < st.NumFields(); i++ {
			f := st.Field(i)
			tag := reflectTag(st.Tag(i), "json")
			if tag == "-" {
				continue
			}
			name, opts, _ := strings.Cut(tag, ",")
			ft := f.Type()
			if f.Embedded() {
				et := ft
				if p, ok := under(et).(*types.Pointer); ok {
					et = p.Elem()
				}
				_, isStruct := under(et).(*types.Struct)
				if !f.Exported() && !isStruct {
					continue
				}
				if name == "" && isStruct {
					walk(et, append(append([]int{}, path...), i), depth+1, seen)
					continue
				}
			} else if !f.Exported() {
				continue
			}
			c := cand{depth: depth}
			c.path = append(append([]int{}, path...), i)
			c.typ = ft
			c.name = name
			c.tagged = name != ""
			if name == "" {
				c.name = f.Name()
			}
			for _, o := range strings.Split(opts, ",") {
				switch o {
				case "omitempty":
					c.omitEmpty = true
				case "string":
					c.quoted = true
				}
			}
			all = append(all, c)
		}
	}
	walk(t, nil, 0, map[types.Type]bool{})
	// dominance: per name keep the shallowest; ties: the single tagged one, else none
	by := map[string][]cand{}
	var order []string
	for _, c := range all {
		if _, ok := by[c.name]; !ok {
			order = append(order, c.name)
		}
		by[c.name] = append(by[c.name], c)
	}
	var out []jfield
	for _, n := range order {
		cs := by[n]
		min := cs[0].depth
		for _, c := range cs {
			if c.depth < min {
				min = c.depth
			}
		}
		var best []cand
		for _, c := range cs {
			if c.depth == min {
				best = append(best, c)
			}
		}
		if len(best) > 1 {
			var tagged []cand
			for _, c := range best {
				if c.tagged {
					tagged = append(tagged, c)
				}
			}
			if len(tagged) != 1 {
				continue
			}
			best = tagged
		}
		out = append(out, best[0].jfield)
	}
	sort.SliceStable(out, func(i, j int) bool {
		a, b := out[i].path, out[j].path
		for k := 0; k < len(a) && k < len(b); k++ {
			if a[k] != b[k] {
				return a[k] < b[k]
			}
		}
		return len(a) < len(b)
	})
	return out
}

func reflectTag(tag, key string) string {
	// mini StructTag.Get
	for tag != "" {
		i := 0
		for i < len(tag) && tag[i] == ' ' {
			i++
		}
		tag = tag[i:]
		if tag == "" {
			break
		}
		i = 0
		for i < len(tag) && tag[i] > ' ' && tag[i] != ':' && tag[i] != '"' && tag[i] != 0x7f {
			i++
		}
		if i == 0 || i+1 >= len(tag) || tag[i] != ':' || tag[i+1] != '"' {
			break
		}
		name := tag[:i]
		tag = tag[i+1:]
		i = 1
		for i < len(tag) && tag[i] != '"' {
			if tag[i] == '\\' {
				i++
			}
			i++
		}
		if i >= len(tag) {
			break
		}
		q := tag[:i+1]
		tag = tag[i+1:]
		if name == key {
			v, err := strconv.Unquote(q)
			if err != nil {
				break
			}
			return v
		}
	}
	return ""
}

// fieldByPath reads a (possibly promoted) field; as is the addressable twin of s (or nil).
func fieldByPath(s Struct, as Struct, t types.Type, path []int) (Value, *Value, bool) {
	cur := s
	acur := as
	ct := t
	for k, i := range path {
		st := under(ct).(*types.Struct)
		ft := st.Field(i).Type()
		if k == len(path)-1 {
			var fa *Value
			if acur != nil {
				fa = &acur[i]
			}
			return cur[i], fa, true
		}
		if _, isP := under(ft).(*types.Pointer); isP {
			p, _ := cur[i].(*Value)
			if p == nil {
				return nil, nil, false
			}
			cur = (*p).(Struct)
			acur = cur
			ct = under(ft).(*types.Pointer).Elem()
		} else {
			cur = cur[i].(Struct)
			if acur != nil {
				acur = acur[i].(Struct)
			}
			ct = ft
		}
	}
	return nil, nil, false
}

func (g *G) jsonMarshal(v Value) (*Blob, Value) {
	x, _ := v.(Iface)
	e := &jenc{g: g}
	var d *Doc
	if x.T == nil {
		d = &Doc{K: DNull}
	} else {
		d = e.marshal(x.V, x.T, nil)
	}
	if e.err != nil {
		return nil, e.err
	}
	return blobDoc(d), Iface{}
}

// ---------------- unmarshal ----------------

type jdec struct {
	g         *G
	err       Value
	useNumber bool
}

func (j *jdec) typeErr(what string, t types.Type) {
	if j.err == nil {
		j.err = j.g.mkError(S("json: cannot unmarshal "+what+" into Go value of type "+typeString(t)), Iface{})
	}
}

func docKindName(d *Doc) string {
	return [...]string{"null", "bool", "number", "string", "array", "object"}[d.K]
}

func (j *jdec) toInterface(d *Doc) Value {
	g := j.g
	switch d.K {
	case DNull:
		return Iface{}
	case DBool:
		return Iface{T: types.Typ[types.Bool], V: d.B}
	case DStr:
		return Iface{T: types.Typ[types.String], V: d.S}
	case DNum:
		if j.useNumber {
			nt := g.run.P.NamedType("encoding/json", "Number")
			if d.concrete() {
				return Iface{T: nt, V: S(d.numLit())}
			}
			return Iface{T: nt, V: Str{Segs: []Seg{{Q: "numlit(" + d.String() + ")"}}}}
		}
		return Iface{T: types.Typ[types.Float64], V: j.numToFloat(d)}
	case DArr:
		out := make(Slice, len(d.Elems))
		for i, e := range d.Elems {
			out[i] = j.toInterface(e)
		}
		return Iface{T: types.NewSlice(types.NewInterfaceType(nil, nil)), V: out}
	case DObj:
		m := &MapV{KT: types.Typ[types.String]}
		for i, k := range d.Keys {
			g.mapSet(m, S(k), j.toInterface(d.Vals[i]))
		}
		return Iface{T: types.NewMap(types.Typ[types.String], types.NewInterfaceType(nil, nil)), V: m}
	}
	return Iface{}
}

func (j *jdec) numToFloat(d *Doc) F64 {
	if d.Lit != "" {
		f, err := strconv.ParseFloat(d.Lit, 64)
		if err != nil {
			j.typeErr("number "+d.Lit, types.Typ[types.Float64])
		}
		return F64{C: f}
	}
	if d.NI != nil {
		return mkF64(IntToFP(d.NI.Term(64), d.NSigned))
	}
	return *d.NF
}

// numToInt decodes a number into an integer kind of width w.
func (j *jdec) numToInt(d *Doc, t types.Type) (Int, bool) {
	g := j.g
	w, signed, _ := intWidth(t)
	if d.Lit != "" {
		if signed {
			n, err := strconv.ParseInt(d.Lit, 10, w)
			if err != nil {
				j.typeErr("number "+d.Lit, t)
				return Int{}, false
			}
			return Int{C: uint64(n) & mask(w)}, true
		}
		n, err := strconv.ParseUint(d.Lit, 10, w)
		if err != nil {
			j.typeErr("number "+d.Lit, t)
			return Int{}, false
		}
		return Int{C: n}, true
	}
	if d.NI != nil {
		x := d.NI.Term(64)
		// literal value x (signed or unsigned 64) must fit the target
		var fits *Term
		switch {
		case signed && d.NSigned:
			if w == 64 {
				fits = TrueT
			} else {
				fits = And(BVCmp("bvsge", x, BVConst(uint64(-(int64(1)<<(uint(w)-1))), 64)), BVCmp("bvsle", x, BVConst(uint64(int64(1)<<(uint(w)-1)-1), 64)))
			}
		case signed && !d.NSigned:
			fits = BVCmp("bvule", x, BVConst(uint64(int64(1)<<(uint(w)-1)-1), 64))
		case !signed && d.NSigned:
			fits = BVCmp("bvsge", x, BVConst(0, 64))
			if w < 64 {
				fits = And(fits, BVCmp("bvsle", x, BVConst(mask(w), 64)))
			}
		default:
			if w == 64 {
				fits = TrueT
			} else {
				fits = BVCmp("bvule", x, BVConst(mask(w), 64))
			}
		}
		if !g.branch(mkBool(fits)) {
			j.typeErr("number (out of range)", t)
			return Int{}, false
		}
		return mkInt(Extract(x, w-1, 0)), true
	}
	// float-valued literal: integer syntax iff integral and |f| < 1e21; must fit
	f := d.NF.Term()
	if signed && w == 64 {
		g.model("float64-valued JSON number decoded into int64: accepted iff integral and within int64 range")
		integral := FPCmp("fp.eq", &Term{Op: "fp.rti", S: SFP, Args: []*Term{f}}, f)
		in := And(FPCmp("fp.geq", f, FPConst(-9223372036854775808.0)), FPCmp("fp.lt", f, FPConst(9223372036854775808.0)))
		if !g.branch(mkBool(And(integral, in))) {
			j.typeErr("number (non-integer)", t)
			return Int{}, false
		}
		return Int{T: &Term{Op: "fp.to_sbv", S: SBV, W: 64, Args: []*Term{f}}}, true
	}
	g.inconclusive("symbolic float literal into " + typeString(t))
	return Int{}, false
}

func (j *jdec) callUnmarshaler(ptr *Value, pt types.Type, d *Doc) {
	g := j.g
	fn := g.findMethod(pt, "UnmarshalJSON")
	res, _ := g.callFn(&Closure{Fn: fn}, []Value{ptr, blobDoc(d)}, g.top, token.NoPos).(Iface)
	if res.T != nil && j.err == nil {
		j.err = res
	}
}

// value decodes d into the settable slot addr of type t.
func (j *jdec) value(d *Doc, t types.Type, addr *Value) {
	g := j.g
	P := g.run.P
	ui := P.jsonIface("Unmarshaler")
	if pt, ok := under(t).(*types.Pointer); ok {
		if d.K == DNull {
			store(addr, (*Value)(nil))
			return
		}
		p, _ := (*addr).(*Value)
		if p == nil {
			p = new(Value)
			*p = zero(pt.Elem())
			store(addr, p)
		}
		if types.Implements(t, ui) {
			j.callUnmarshaler(p, t, d)
			return
		}
		j.value(d, pt.Elem(), p)
		return
	}
	if isUUID(t) {
		if d.K == DStr {
			u, ok := uuidParse(g, d.S)
			if !ok {
				if j.err == nil {
					j.err = g.mkError(S("invalid UUID"), Iface{})
				}
				return
			}
			store(addr, u)
			return
		}
	}
	if _, isIf := under(t).(*types.Interface); !isIf && types.Implements(types.NewPointer(t), ui) {
		if _, named := types.Unalias(t).(*types.Named); named {
			j.callUnmarshaler(addr, types.NewPointer(t), d)
			return
		}
	}
	if it, isIf := under(t).(*types.Interface); isIf {
		cur, _ := (*addr).(Iface)
		if d.K == DNull {
			store(addr, Iface{})
			return
		}
		// non-nil pointer inside the interface: decode into it
		if cur.T != nil {
			if _, isP := under(cur.T).(*types.Pointer); isP {
				if p, _ := cur.V.(*Value); p != nil {
					tmp := new(Value)
					*tmp = p
					j.value(d, cur.T, tmp)
					return
				}
			}
		}
		if it.NumMethods() > 0 {
			j.typeErr(docKindName(d), t)
			return
		}
		store(addr, j.toInterface(d))
		return
	}
	switch d.K {
	case DNull:
		switch under(t).(type) {
		case *types.Map, *types.Slice:
			store(addr, zero(t))
		}
		return
	case DBool:
		if isBool(t) {
			store(addr, d.B)
			return
		}
		j.typeErr("bool", t)
	case DStr:
		if isString(t) {
			store(addr, d.S)
			return
		}
		if isByteSlice(t) {
			if !d.S.IsConc() {
				g.inconclusive("base64 decode of symbolic string")
			}
			b, err := base64.StdEncoding.DecodeString(d.S.C)
			if err != nil {
				if j.err == nil {
					j.err = g.mkError(S(err.Error()), Iface{})
				}
				return
			}
			if b == nil {
				b = []byte{}
			}
			out := make(Slice, len(b))
			for i, c := range b {
				out[i] = Int{C: uint64(c)}
			}
			store(addr, out)
			return
		}
		j.typeErr("string", t)
	case DNum:
		if _, _, ok := intWidth(t); ok {
			if v, ok := j.numToInt(d, t); ok {
				store(addr, v)
			}
			return
		}
		if isFloat(t) {
			store(addr, j.numToFloat(d))
			return
		}
		j.typeErr("number", t)
	case DArr:
		switch u := under(t).(type) {
		case *types.Slice:
			var out Slice
			if cur, ok := (*addr).(Slice); ok && cur != nil && cap(cur) >= len(d.Elems) && len(d.Elems) > 0 {
				// encoding/json truncates the existing slice and appends: the backing
				// array is reused (elements are decoded in place, like real json)
				out = cur[:len(d.Elems)]
			} else {
				out = make(Slice, len(d.Elems))
				for i := range out {
					out[i] = zero(u.Elem())
				}
			}
			for i, e := range d.Elems {
				if _, isPtr := under(u.Elem()).(*types.Pointer); !isPtr {
					if _, isMap := under(u.Elem()).(*types.Map); !isMap {
						out[i] = zero(u.Elem())
					}
				}
				j.value(e, u.Elem(), &out[i])
			}
			store(addr, out)
			return
		case *types.Array:
			arr := (*addr).(Array)
			for i := range arr {
				if i < len(d.Elems) {
					j.value(d.Elems[i], u.Elem(), &arr[i])
				} else {
					arr[i] = zero(u.Elem())
				}
			}
			return
		}
		j.typeErr("array", t)
	case DObj:
		switch u := under(t).(type) {
		case *types.Struct:
			fields := jsonFields(t)
			s := (*addr).(Struct)
			for i, k := range d.Keys {
				var f *jfield
				for fi := range fields {
					if fields[fi].name == k {
						f = &fields[fi]
						break
					}
				}
				if f == nil {
					for fi := range fields {
						if strings.EqualFold(fields[fi].name, k) {
							f = &fields[fi]
							break
						}
					}
				}
				if f == nil {
					continue
				}
				fa := j.fieldAddr(s, t, f.path)
				if fa == nil {
					continue
				}
				j.value(d.Vals[i], f.typ, fa)
			}
			return
		case *types.Map:
			m, _ := (*addr).(*MapV)
			if m == nil {
				m = &MapV{KT: u.Key()}
				store(addr, m)
			}
			for i, k := range d.Keys {
				var kv Value
				if isString(u.Key()) {
					kv = S(k)
				} else if w, signed, ok := intWidth(u.Key()); ok {
					if signed {
						n, err := strconv.ParseInt(k, 10, w)
						if err != nil {
							j.typeErr("number "+k, u.Key())
							continue
						}
						kv = Int{C: uint64(n) & mask(w)}
					} else {
						n, err := strconv.ParseUint(k, 10, w)
						if err != nil {
							j.typeErr("number "+k, u.Key())
							continue
						}
						kv = Int{C: n}
					}
				} else {
					j.typeErr("object", t)
					return
				}
				slot := new(Value)
				*slot = zero(u.Elem())
				if idx := g.mapFind(m, kv); idx >= 0 {
					*slot = copyVal(m.Vals[idx])
				}
				j.value(d.Vals[i], u.Elem(), slot)
				g.mapSet(m, kv, *slot)
			}
			return
		}
		j.typeErr("object", t)
	}
}

// fieldAddr walks path, allocating embedded pointers on the way.
func (j *jdec) fieldAddr(s Struct, t types.Type, path []int) *Value {
	cur := s
	ct := t
	for k, i := range path {
		st := under(ct).(*types.Struct)
		ft := st.Field(i).Type()
		if k == len(path)-1 {
			return &cur[i]
		}
		if pt, isP := under(ft).(*types.Pointer); isP {
			p, _ := cur[i].(*Value)
			if p == nil {
				p = new(Value)
				*p = zero(pt.Elem())
				cur[i] = p
			}
			cur = (*p).(Struct)
			ct = pt.Elem()
		} else {
			cur = cur[i].(Struct)
			ct = ft
		}
	}
	return nil
}

// jsonUnmarshalDoc decodes d into the pointer target v (an interface holding a pointer).
func (g *G) jsonUnmarshalDoc(d *Doc, v Value, useNumber bool) Value {
	x, _ := v.(Iface)
	if x.T == nil {
		return g.mkError(S("json: Unmarshal(nil)"), Iface{})
	}
	pt, ok := under(x.T).(*types.Pointer)
	p, _ := x.V.(*Value)
	if !ok || p == nil {
		return g.mkError(S("json: Unmarshal(non-pointer "+typeString(x.T)+")"), Iface{})
	}
	j := &jdec{g: g, useNumber: useNumber}
	ui := g.run.P.jsonIface("Unmarshaler")
	if types.Implements(x.T, ui) {
		j.callUnmarshaler(p, x.T, d)
	} else {
		j.value(d, pt.Elem(), p)
	}
	if j.err != nil {
		return j.err
	}
	return Iface{}
}

func (g *G) jsonUnmarshal(data Value, v Value) Value {
	b := g.asBlob(data)
	d, msg := parseWhole(g, b)
	if msg != "" {
		return g.mkError(S(msg), Iface{})
	}
	return g.jsonUnmarshalDoc(d, v, false)
}

// ---------------- Decoder / Encoder objects ----------------

type JDecoder struct {
	r         Iface
	buf       *Blob
	eof       bool
	err       Value
	useNumber bool
}

type JEncoder struct{ w Iface }

func init() {
	reg("encoding/json.Marshal", func(g *G, fr *Frame, fn *ssa.Function, a []Value) Value {
		b, err := g.jsonMarshal(a[0])
		if b == nil {
			return Tuple{Slice(nil), err}
		}
		return Tuple{b, err}
	})
	reg("encoding/json.Unmarshal", func(g *G, fr *Frame, fn *ssa.Function, a []Value) Value {
		return g.jsonUnmarshal(a[0], a[1])
	})
	reg("encoding/json.Valid", func(g *G, fr *Frame, fn *ssa.Function, a []Value) Value {
		_, msg := parseWhole(g, g.asBlob(a[0]))
		return Bool{C: msg == ""}
	})
	reg("encoding/json.NewDecoder", func(g *G, fr *Frame, fn *ssa.Function, a []Value) Value {
		p := new(Value)
		*p = &JDecoder{r: a[0].(Iface), buf: &Blob{}}
		return p
	})
	reg("encoding/json.NewEncoder", func(g *G, fr *Frame, fn *ssa.Function, a []Value) Value {
		p := new(Value)
		*p = &JEncoder{w: a[0].(Iface)}
		return p
	})
	reg("(*encoding/json.Decoder).UseNumber", func(g *G, fr *Frame, fn *ssa.Function, a []Value) Value {
		(*a[0].(*Value)).(*JDecoder).useNumber = true
		return nil
	})
	reg("(*encoding/json.Decoder).Decode", func(g *G, fr *Frame, fn *ssa.Function, a []Value) Value {
		d := (*a[0].(*Value)).(*JDecoder)
		if d.err != nil {
			return d.err
		}
		if !d.eof {
			content, rerr := g.readAllFrom(d.r)
			d.eof = true
			d.buf = blobConcat(g, d.buf, content)
			if rerr != nil {
				if e, _ := rerr.(Iface); e.T != nil {
					// a read error other than EOF surfaces once the buffered data is used up
					if len(d.buf.trimSpace().Segs) == 0 {
						d.err = rerr
						return rerr
					}
				}
			}
		}
		if len(d.buf.trimSpace().Segs) == 0 {
			return load(g.run.global(g.run.P.Pkgs["io"].Var("EOF")))
		}
		doc, rest, msg := parseFirst(g, d.buf)
		if msg != "" {
			if msg == "unexpected end of JSON input" {
				d.err = load(g.run.global(g.run.P.Pkgs["io"].Var("ErrUnexpectedEOF")))
			} else {
				d.err = g.mkError(S(msg), Iface{})
			}
			return d.err
		}
		d.buf = rest
		return g.jsonUnmarshalDoc(doc, a[1], d.useNumber)
	})
	reg("(*encoding/json.Encoder).Encode", func(g *G, fr *Frame, fn *ssa.Function, a []Value) Value {
		e := (*a[0].(*Value)).(*JEncoder)
		b, err := g.jsonMarshal(a[1])
		if b == nil {
			return err
		}
		out := blobConcat(g, b, blobBytes([]byte("\n")))
		res := g.writeTo(e.w, out).(Tuple)
		return res[1]
	})
	reg("(encoding/json.RawMessage).MarshalJSON", func(g *G, fr *Frame, fn *ssa.Function, a []Value) Value {
		if isNilBytes(a[0]) {
			return Tuple{blobBytes([]byte("null")), Iface{}}
		}
		return Tuple{a[0], Iface{}}
	})
	reg("(*encoding/json.RawMessage).UnmarshalJSON", func(g *G, fr *Frame, fn *ssa.Function, a []Value) Value {
		p, _ := a[0].(*Value)
		if p == nil {
			return g.mkError(S("json.RawMessage: UnmarshalJSON on nil pointer"), Iface{})
		}
		// *m = append((*m)[0:0], data...): the bytes are copied, and when *m already had an array
		// (it held data before, or is an emptied slice of such data) that array is overwritten in place
		data := g.asBlob(a[1])
		if ob, ok := load(p).(*Blob); ok && ob != nil && (len(ob.Segs) > 0 || (ob.reuse && ob.bk != nil)) {
			if ob.bk == nil {
				g.run.nextObj++
				ob.bk = &Backing{id: g.run.nextObj}
				ob.bgen = ob.bk.gen
			}
			ob.bk.gen++
			store(p, &Blob{Segs: data.Segs, bk: ob.bk, bgen: ob.bk.gen})
			return Iface{}
		}
		if os, ok := load(p).(Slice); ok && cap(os) > 0 {
			if bs, ok := data.ConcreteBytes(); ok {
				// concrete bytes in a Go-level slice: append in place exactly as Go does
				out := os[:0]
				for _, c := range bs {
					out = append(out, Int{C: uint64(c)})
				}
				store(p, out)
				return Iface{}
			}
		}
		if b, ok := a[1].(*Blob); ok && b != nil && b.bk != nil {
			store(p, &Blob{Segs: b.Segs})
		} else {
			store(p, a[1])
		}
		return Iface{}
	})
}

var _ = fmt.Sprint
