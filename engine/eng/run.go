package eng

// A Run is one path: one execution of a harness under a forced decision
// prefix. All nondeterminism goes through Run.choose / Run.branchTerm.

import (
	"crypto/sha1"
	"fmt"
	"os"
	"go/token"
	"go/types"
	"sort"
	"strings"
	"sync"

	"golang.org/x/tools/go/ssa"
)

type Decision struct {
	Kind string
	N    int
	V    int
}

type Outcome int

const (
	OutOK Outcome = iota
	OutInfeasible
	OutViolation
	OutInconclusive
)

type Violation struct {
	Label   string
	Class   string
	Msg     string
	Model   map[string]string // raw solver values by symbol
	Inputs  map[string]interface{}
	Trace   []Decision
	Sched   []string
	PC      []string
	Harness string
	Obs     []string
}

type Bounds struct {
	Preempt   int // P: pre-emption bound
	Timers    int // T: optional timer firings
	MaxSteps  int // per path instruction budget (unwinding assertion)
	MaxPaths  int
	Params    map[string]int // harness-visible bounds (verif.Bound)
	SolverMs  int
	DeadlineS int
}

type Run struct {
	P      *Program
	W      *Worker
	B      *Bounds
	prefix []Decision
	pos    int
	trace  []Decision
	pc     []*Term
	pcHash [20]byte
	pcFP   bool
	useAlt bool

	globals map[*ssa.Global]*Value
	funcs   map[string]bool

	// scheduler
	gs          []*G
	nextGID     int
	cur         *G
	main        *G
	done        chan struct{}
	aborted     bool
	wg          sync.WaitGroup
	preemptions int
	deviations  int
	runq        []*G
	visibleOps  int
	timersFired int
	parkSeq     int
	schedLog    []string
	quiesceWait bool

	// objects
	nextObj  int
	mutexes  map[*Value]*Mutex
	onces    map[*Value]*Once
	wgs      map[*Value]*WaitGroupObj
	timers   []*Timer
	clock    int
	env      *Env
	sleepLog []Value
	readsWithoutDeadline int
	bufGen          map[*Value]*Backing
	bufResetPending map[*Value]bool
	readerOrig      map[*Value]*Blob // bytes.Reader / strings.Reader: content at position 0 (for Seek)

	// results
	outcome   Outcome
	reason    string
	violation *Violation
	reached   map[string]bool
	classTags []string
	inputs    []*Term
	inputMeta map[string]InputMeta
	strInputs map[string][]*Term
	steps     int
	asserts   int
	assertsSolver int
	fnsSeen   map[*ssa.Function]bool
	modelsHit map[string]bool
	crashed   string
	obs       []string
	freshN    int
	enginePanic interface{}
	raceOn   bool
	objVC    map[interface{}]VC
	watch    map[*Value]*watchCell
	races    []string
	raceSeen map[string]bool
	backings   map[*Value]*Backing
	bufBacking map[*Value]*Backing
	pools      map[*Value]*PoolObj
	atomicVals map[*Value]*anyBox
	syncMaps   map[*Value]*MapV
}

type InputMeta struct {
	Kind string // int, uint, bool, str, float, byte
	W    int
}

func (r *Run) global(g *ssa.Global) *Value {
	if p, ok := r.globals[g]; ok {
		return p
	}
	p := new(Value)
	*p = zero(g.Type().Underlying().(*types.Pointer).Elem())
	// sentinel errors of packages whose initialisers are not executed
	if g.Pkg != nil {
		if msg, ok := sentinelErrors[g.Pkg.Pkg.Path()+"."+g.Name()]; ok {
			t := r.P.NamedType("fmt", "wrapError")
			st := zero(t).(Struct)
			st[0] = S(msg)
			pv := new(Value)
			*pv = st
			*p = Iface{T: types.NewPointer(t), V: pv}
		}
	}
	auditGlobal(r, g)
	if g.Pkg != nil && g.Pkg.Pkg.Path() == "net/http" && g.Name() == "DefaultClient" {
		// var DefaultClient = &Client{} (net/http's initialiser is not executed)
		c := new(Value)
		*c = zero(r.P.NamedType("net/http", "Client"))
		*p = c
	}
	r.globals[g] = p
	return p
}

var sentinelErrors = map[string]string{
	"net/http.ErrAbortHandler":   "net/http: abort Handler",
	"net/http.ErrServerClosed":   "http: Server closed",
	"net/http.ErrHandlerTimeout": "http: Handler timeout",
	"net/http.ErrBodyNotAllowed": "http: request method or response status code does not allow body",
	"net/http.ErrUseLastResponse": "net/http: use last response",
	"os.ErrDeadlineExceeded":     "i/o timeout",
	"os.ErrClosed":               "file already closed",
	"net.ErrClosed":              "use of closed network connection",
}

func (r *Run) step(g *G, in ssa.Instruction) {
	r.steps++
	if r.steps > r.B.MaxSteps {
		g.inconclusive(fmt.Sprintf("step budget %d exceeded (unwinding assertion) at %v", r.B.MaxSteps, r.P.Prog.Fset.Position(in.Pos())))
	}
	if r.steps&0x3ff == 0 && r.W.ex.expired() {
		g.inconclusive("wall-clock deadline")
	}
	if f := in.Parent(); f != nil && !r.fnsSeen[f] {
		r.fnsSeen[f] = true
	}
}

func (r *Run) fresh(prefix string) string {
	r.freshN++
	return fmt.Sprintf("%s_%d", prefix, r.freshN)
}

// ---- decisions ----

func (r *Run) choose(kind string, n int) int {
	if n <= 1 {
		return 0
	}
	if r.pos < len(r.prefix) {
		d := r.prefix[r.pos]
		if d.N != n || d.Kind != kind {
			r.fail(OutInconclusive, fmt.Sprintf("nondeterministic replay: decision %d was %s/%d, now %s/%d", r.pos, d.Kind, d.N, kind, n))
		}
		r.pos++
		r.trace = append(r.trace, d)
		return d.V
	}
	// fresh: take 0, push siblings
	for v := n - 1; v >= 1; v-- {
		r.W.ex.push(append(append([]Decision{}, r.trace...), Decision{kind, n, v}))
	}
	r.trace = append(r.trace, Decision{kind, n, 0})
	r.pos++
	return 0
}

func (r *Run) addPC(t *Term) {
	r.pc = append(r.pc, t)
	h := sha1.New()
	h.Write(r.pcHash[:])
	h.Write([]byte(t.Key()))
	copy(r.pcHash[:], h.Sum(nil))
	r.W.solver.Assert(t)
	if hasFP(t) {
		r.pcFP = true
	}
	if r.useAlt {
		r.W.alt.Assert(t)
	} else if r.pcFP && r.W.ex.fpAltOn() {
		r.switchAlt()
	}
}

// Floating-point fallback: z3 is the default back end because it is the fastest
// on bit-vector queries, but it times out on many FP queries that cvc5 decides
// at once. When a query that involves FP terms comes back unknown from z3 the
// path is re-asserted on a cvc5 process kept beside the primary solver and the
// query is repeated there; once that has helped, later paths switch as soon as
// their path condition contains an FP term.
func hasFP(t *Term) bool {
	seen := map[*Term]bool{}
	var walk func(t *Term) bool
	walk = func(t *Term) bool {
		if t == nil || seen[t] {
			return false
		}
		seen[t] = true
		if t.S == SFP {
			return true
		}
		for _, a := range t.Args {
			if walk(a) {
				return true
			}
		}
		return false
	}
	return walk(t)
}

func (r *Run) sol() *Solver {
	if r.useAlt {
		return r.W.alt
	}
	return r.W.solver
}

func (r *Run) canAlt(extra ...*Term) bool {
	if r.useAlt || r.W.solver.Kind == "cvc5" || r.W.ex.NoFPFallback {
		return false
	}
	if r.pcFP {
		return true
	}
	for _, t := range extra {
		if hasFP(t) {
			return true
		}
	}
	return false
}

func (r *Run) switchAlt() bool {
	w := r.W
	if w.alt == nil {
		s, err := NewSolver("cvc5", w.ex.B.SolverMs)
		if err != nil {
			return false
		}
		w.alt = s
	}
	w.alt.Push()
	for _, t := range r.pc {
		w.alt.Assert(t)
	}
	r.useAlt = true
	return true
}

func (r *Run) solverCheck(t *Term) SatResult {
	if !r.useAlt && r.W.ex.fpAltOn() && r.canAlt(t) {
		r.switchAlt()
	}
	res := r.sol().Check(t)
	if res == Unknown && r.canAlt(t) && r.switchAlt() {
		res = r.W.alt.Check(t)
		if res != Unknown {
			r.W.ex.setFPAlt()
		}
	}
	return res
}

func (r *Run) solverCheckModel(extra ...*Term) (SatResult, map[string]string) {
	if !r.useAlt && r.W.ex.fpAltOn() && r.canAlt(extra...) {
		r.switchAlt()
	}
	res, model := r.sol().CheckWithModel(r.inputs, extra...)
	if res == Unknown && r.canAlt(extra...) && r.switchAlt() {
		res, model = r.W.alt.CheckWithModel(r.inputs, extra...)
		if res != Unknown {
			r.W.ex.setFPAlt()
		}
	}
	return res, model
}

func (r *Run) check(t *Term) SatResult {
	key := string(r.pcHash[:]) + t.Key()
	if v, ok := r.W.ex.cacheGet(key); ok {
		return v
	}
	res := r.solverCheck(t)
	if res == Unknown {
		r.W.ex.noteUnknown(r.sol().LastErr)
	}
	r.W.ex.cachePut(key, res)
	return res
}

// branchTerm decides a symbolic condition, forking when both sides are feasible.
func (r *Run) branchTerm(t *Term) bool {
	if t.IsConst() {
		return t.B
	}
	sT := r.check(t)
	if sT == Unsat {
		return false
	}
	sF := r.check(Not(t))
	if sF == Unsat {
		return true
	}
	v := r.choose("br", 2)
	// v==0 means "true" side first
	if v == 0 {
		r.addPC(t)
		return true
	}
	r.addPC(Not(t))
	return false
}

func (g *G) branch(b Bool) bool {
	if b.T == nil {
		return b.C
	}
	return g.run.branchTerm(b.T)
}

// fail ends the path with the given outcome.
func (r *Run) fail(o Outcome, reason string) {
	if r.outcome == OutOK {
		r.outcome = o
		r.reason = reason
	}
	panic(abortRun{})
}

func (g *G) inconclusive(reason string) {
	if g.top != nil {
		reason += " [at " + g.where() + "]"
	}
	g.run.fail(OutInconclusive, reason)
}

func (g *G) where() string {
	fr := g.top
	if fr == nil {
		return "?"
	}
	var parts []string
	for f, n := fr, 0; f != nil && n < 6; f, n = f.caller, n+1 {
		if f.fn != nil {
			parts = append(parts, f.fn.String()+":"+posLine(g.run.P, f.pos))
		}
	}
	return strings.Join(parts, " < ")
}

func posLine(p *Program, pos token.Pos) string {
	if !pos.IsValid() {
		return "-"
	}
	ps := p.Prog.Fset.Position(pos)
	return fmt.Sprintf("%d", ps.Line)
}

// ---- symbolic inputs ----

func (r *Run) newInput(name string, s Sort, w int, meta InputMeta) *Term {
	t := Var("in_"+sanitize(name), s, w)
	r.inputs = append(r.inputs, t)
	r.inputMeta[t.Name] = meta
	return t
}

func sanitize(s string) string {
	var sb strings.Builder
	for _, c := range s {
		if (c >= 'a' && c <= 'z') || (c >= 'A' && c <= 'Z') || (c >= '0' && c <= '9') || c == '_' {
			sb.WriteRune(c)
		} else {
			sb.WriteByte('_')
		}
	}
	return sb.String()
}

// ---- assertions ----

func (r *Run) assertCond(g *G, c Bool, label string) {
	r.asserts++
	if c.T == nil {
		if c.C {
			return
		}
		r.violate(g, label, nil)
		return
	}
	r.assertsSolver++
	res, model := r.solverCheckModel(Not(c.T))
	switch res {
	case Unsat:
		return
	case Unknown:
		r.W.ex.noteUnknown(r.sol().LastErr)
		r.fail(OutInconclusive, "solver unknown on assertion "+label+": "+r.sol().LastErr)
	case Sat:
		r.violateWith(g, label, model)
	}
}

func (r *Run) violate(g *G, label string, _ map[string]string) {
	res, model := r.solverCheckModel()
	if res == Unsat {
		r.fail(OutInfeasible, "path condition unsat at violation")
	}
	if res == Unknown {
		r.fail(OutInconclusive, "solver unknown while building model for "+label)
	}
	r.violateWith(g, label, model)
}

func (r *Run) violateWith(g *G, label string, model map[string]string) {
	v := &Violation{Label: label, Model: model, Trace: append([]Decision{}, r.trace...), Sched: append([]string{}, r.schedLog...)}
	tags := append([]string{}, r.classTags...)
	v.Class = label
	if len(tags) > 0 {
		v.Class += "/" + strings.Join(tags, ",")
	}
	for _, t := range r.pc {
		v.PC = append(v.PC, t.Key())
	}
	v.Inputs = r.decodeInputs(model)
	if g != nil {
		v.Msg = g.where()
	}
	v.Obs = append([]string{}, r.obs...)
	if bs := r.blockedSummary(); bs != "" {
		v.Obs = append(v.Obs, "blocked: "+bs)
	}
	r.violation = v
	r.fail(OutViolation, label)
}

func (r *Run) decodeInputs(model map[string]string) map[string]interface{} {
	out := map[string]interface{}{}
	for _, t := range r.inputs {
		raw, ok := model[t.Name]
		if !ok {
			continue
		}
		name := strings.TrimPrefix(t.Name, "in_")
		meta := r.inputMeta[t.Name]
		switch meta.Kind {
		case "bool":
			out[name] = raw == "true"
		case "float":
			out[name] = parseFPValue(raw)
		case "strbyte":
			// assembled below
		default:
			u := parseBVValue(raw)
			if meta.Kind == "int" {
				out[name] = sext(u, meta.W)
			} else {
				out[name] = u
			}
		}
	}
	var names []string
	for n := range r.strInputs {
		names = append(names, n)
	}
	sort.Strings(names)
	for _, n := range names {
		bs := r.strInputs[n]
		b := make([]byte, len(bs))
		for i, t := range bs {
			if raw, ok := model[t.Name]; ok {
				b[i] = byte(parseBVValue(raw))
			} else {
				b[i] = 'a'
			}
		}
		out[n] = string(b)
	}
	for _, d := range r.trace {
		if strings.HasPrefix(d.Kind, "choice:") {
			out[strings.TrimPrefix(d.Kind, "choice:")] = int64(d.V)
		}
	}
	return out
}

func parseBVValue(s string) uint64 {
	s = strings.TrimSpace(s)
	var u uint64
	switch {
	case strings.HasPrefix(s, "#x"):
		fmt.Sscanf(s[2:], "%x", &u)
	case strings.HasPrefix(s, "#b"):
		fmt.Sscanf(s[2:], "%b", &u)
	case strings.HasPrefix(s, "(_ bv"):
		fmt.Sscanf(s, "(_ bv%d", &u)
	}
	return u
}

func parseFPValue(s string) float64 {
	s = strings.TrimSpace(s)
	// (fp #b0 #b10000000000 #x8000000000000) or (_ +zero 11 53) etc.
	if strings.HasPrefix(s, "(fp ") {
		parts := strings.Fields(strings.TrimSuffix(strings.TrimPrefix(s, "(fp "), ")"))
		if len(parts) == 3 {
			var bits uint64
			for _, p := range parts {
				var u uint64
				n := 0
				if strings.HasPrefix(p, "#b") {
					n = len(p) - 2
					fmt.Sscanf(p[2:], "%b", &u)
				} else if strings.HasPrefix(p, "#x") {
					n = 4 * (len(p) - 2)
					fmt.Sscanf(p[2:], "%x", &u)
				}
				bits = bits<<uint(n) | u
			}
			return float64frombits(bits)
		}
	}
	switch {
	case strings.Contains(s, "+zero"):
		return 0
	case strings.Contains(s, "-zero"):
		return negZero()
	case strings.Contains(s, "+oo"):
		return inf(1)
	case strings.Contains(s, "-oo"):
		return inf(-1)
	case strings.Contains(s, "NaN"):
		return nan()
	}
	return 0
}

// auditGlobal (GJV_AUDIT_GLOBALS=<file>): lists the package-level variables touched by a run
// whose package initialiser is not executed although it assigns them — candidates for a zero
// value the real program never sees.
var auditSeen sync.Map

func auditGlobal(r *Run, g *ssa.Global) {
	f := os.Getenv("GJV_AUDIT_GLOBALS")
	if f == "" || g.Pkg == nil {
		return
	}
	for _, p := range r.P.InitPkgs {
		if p == g.Pkg {
			return
		}
	}
	name := g.Pkg.Pkg.Path() + "." + g.Name()
	if _, dup := auditSeen.LoadOrStore(name, true); dup {
		return
	}
	assigned := false
	if init := g.Pkg.Func("init"); init != nil {
		for _, b := range init.Blocks {
			for _, in := range b.Instrs {
				if st, ok := in.(*ssa.Store); ok && st.Addr == ssa.Value(g) {
					assigned = true
				}
			}
		}
	}
	if !assigned {
		return
	}
	if fh, err := os.OpenFile(f, os.O_APPEND|os.O_CREATE|os.O_WRONLY, 0644); err == nil {
		fmt.Fprintln(fh, name)
		fh.Close()
	}
}
