package eng

// Abstract byte payloads ("blobs") and JSON documents with symbolic leaves.

import (
	"encoding/json"
	"fmt"
	"strings"
)

type DocKind int

const (
	DNull DocKind = iota
	DBool
	DNum
	DStr
	DArr
	DObj
)

type Doc struct {
	K       DocKind
	B       Bool
	Lit     string // concrete number literal
	NI      *Int   // symbolic (or concrete) integer literal value
	NSigned bool
	NF      *F64 // symbolic float value
	S       Str
	Elems   []*Doc
	Keys    []string
	Vals    []*Doc
	lenT    *Term
	bk      *Backing
	bgen    int
}

func (d *Doc) setBacking(bk *Backing, gen int) {
	d.bk, d.bgen = bk, gen
	for _, e := range d.Elems {
		e.setBacking(bk, gen)
	}
	for _, e := range d.Vals {
		e.setBacking(bk, gen)
	}
}

func (d *Doc) concrete() bool {
	switch d.K {
	case DBool:
		return d.B.T == nil
	case DNum:
		return d.Lit != "" || (d.NI != nil && d.NI.T == nil) || (d.NF != nil && d.NF.T == nil)
	case DStr:
		return d.S.IsConc()
	case DArr:
		for _, e := range d.Elems {
			if !e.concrete() {
				return false
			}
		}
	case DObj:
		for _, e := range d.Vals {
			if !e.concrete() {
				return false
			}
		}
	}
	return true
}

func (d *Doc) numLit() string {
	if d.Lit != "" {
		return d.Lit
	}
	if d.NI != nil {
		if d.NSigned {
			return fmt.Sprint(int64(d.NI.C))
		}
		return fmt.Sprint(d.NI.C)
	}
	b, err := json.Marshal(d.NF.C)
	if err != nil {
		return "NaN"
	}
	return string(b)
}

// render prints a concrete doc exactly as encoding/json would (compact).
func (d *Doc) render(sb *strings.Builder) {
	switch d.K {
	case DNull:
		sb.WriteString("null")
	case DBool:
		if d.B.C {
			sb.WriteString("true")
		} else {
			sb.WriteString("false")
		}
	case DNum:
		sb.WriteString(d.numLit())
	case DStr:
		b, _ := json.Marshal(d.S.C)
		sb.Write(b)
	case DArr:
		sb.WriteByte('[')
		for i, e := range d.Elems {
			if i > 0 {
				sb.WriteByte(',')
			}
			e.render(sb)
		}
		sb.WriteByte(']')
	case DObj:
		sb.WriteByte('{')
		for i, e := range d.Vals {
			if i > 0 {
				sb.WriteByte(',')
			}
			b, _ := json.Marshal(d.Keys[i])
			sb.Write(b)
			sb.WriteByte(':')
			e.render(sb)
		}
		sb.WriteByte('}')
	}
}

func (d *Doc) String() string {
	switch d.K {
	case DNull:
		return "null"
	case DBool:
		return showVal(d.B)
	case DNum:
		if d.Lit != "" {
			return d.Lit
		}
		if d.NI != nil {
			if d.NI.T != nil {
				return "‹" + d.NI.T.Key() + "›"
			}
			return d.numLit()
		}
		if d.NF.T != nil {
			return "‹" + d.NF.T.Key() + "›"
		}
		return d.numLit()
	case DStr:
		return d.S.String()
	case DArr:
		var p []string
		for _, e := range d.Elems {
			p = append(p, e.String())
		}
		return "[" + strings.Join(p, ",") + "]"
	case DObj:
		var p []string
		for i, e := range d.Vals {
			p = append(p, fmt.Sprintf("%q:%s", d.Keys[i], e.String()))
		}
		return "{" + strings.Join(p, ",") + "}"
	}
	return "?"
}

func (d *Doc) firstByte(g *G) Int {
	switch d.K {
	case DNull:
		return Int{C: 'n'}
	case DBool:
		return mkInt(Ite(d.B.Term(), BVConst('t', 8), BVConst('f', 8)))
	case DStr:
		return Int{C: '"'}
	case DArr:
		return Int{C: '['}
	case DObj:
		return Int{C: '{'}
	}
	if d.concrete() {
		return Int{C: uint64(d.numLit()[0])}
	}
	t := Var(g.run.fresh("numc"), SBV, 8)
	g.run.addPC(Or(Eq(t, BVConst('-', 8)), And(BVCmp("bvuge", t, BVConst('0', 8)), BVCmp("bvule", t, BVConst('9', 8)))))
	return Int{T: t}
}

func (d *Doc) lastByte(g *G) Int {
	switch d.K {
	case DNull:
		return Int{C: 'l'}
	case DBool:
		return Int{C: 'e'}
	case DStr:
		return Int{C: '"'}
	case DArr:
		return Int{C: ']'}
	case DObj:
		return Int{C: '}'}
	}
	if d.concrete() {
		l := d.numLit()
		return Int{C: uint64(l[len(l)-1])}
	}
	t := Var(g.run.fresh("numc"), SBV, 8)
	g.run.addPC(And(BVCmp("bvuge", t, BVConst('0', 8)), BVCmp("bvule", t, BVConst('9', 8))))
	return Int{T: t}
}

const maxDocLen = 1 << 20

func (d *Doc) length(g *G) *Term {
	if d.concrete() {
		var sb strings.Builder
		d.render(&sb)
		return BVConst(uint64(sb.Len()), 64)
	}
	if d.lenT == nil {
		g.model("serialised length of a JSON document with symbolic leaves is an arbitrary value in [2, 2^20]")
		d.lenT = Var(g.run.fresh("doclen"), SBV, 64)
		g.run.addPC(And(BVCmp("bvuge", d.lenT, BVConst(2, 64)), BVCmp("bvule", d.lenT, BVConst(maxDocLen, 64))))
	}
	return d.lenT
}

// ---------------- blobs ----------------

type BSeg struct {
	B   []byte  // concrete bytes
	D   *Doc    // one JSON value
	Sym []*Term // symbolic bytes (concrete count)
	Pad *Term   // run of ' ' of symbolic length (64-bit)
	Opq *Term   // unknown bytes of symbolic length (64-bit)
}

// Backing identifies a reusable byte array (a recycled buffer); gen counts how
// often it has been overwritten. A blob read from it remembers the generation it
// saw: reading it after the array was overwritten is a stale-buffer read.
type Backing struct {
	id  int
	gen int
}

type Blob struct {
	bk    *Backing
	bgen  int
	reuse bool // an empty slice of a previously filled array (x[:0]): appending overwrites the array
	Segs []BSeg
	// sink: a destination buffer handed to Read(p); the reader deposits into got
	sink    bool
	sinkLen *Term
	got     *Blob
}

func (b *Blob) String() string {
	if b == nil {
		return "blob(nil)"
	}
	var p []string
	for _, s := range b.Segs {
		switch {
		case s.D != nil:
			p = append(p, s.D.String())
		case s.Sym != nil:
			p = append(p, fmt.Sprintf("‹%d sym bytes›", len(s.Sym)))
		case s.Pad != nil:
			p = append(p, "‹pad "+s.Pad.Key()+"›")
		case s.Opq != nil:
			p = append(p, "‹opaque "+s.Opq.Key()+"›")
		default:
			p = append(p, fmt.Sprintf("%q", s.B))
		}
	}
	if b.sink {
		return "sink"
	}
	return "blob(" + strings.Join(p, " ") + ")"
}

func blobBytes(b []byte) *Blob {
	if len(b) == 0 {
		return &Blob{}
	}
	return &Blob{Segs: []BSeg{{B: b}}}
}

func blobDoc(d *Doc) *Blob { return &Blob{Segs: []BSeg{{D: d}}, bk: d.bk, bgen: d.bgen} }

func (b *Blob) norm() *Blob {
	var out []BSeg
	for _, s := range b.Segs {
		if s.D == nil && s.Sym == nil && s.Pad == nil && s.Opq == nil {
			if len(s.B) == 0 {
				continue
			}
			if n := len(out); n > 0 && out[n-1].D == nil && out[n-1].Sym == nil && out[n-1].Pad == nil && out[n-1].Opq == nil {
				out[n-1].B = append(append([]byte{}, out[n-1].B...), s.B...)
				continue
			}
		}
		out = append(out, s)
	}
	return &Blob{Segs: out}
}

func blobConcat(g *G, a, b *Blob) *Blob {
	if a == nil {
		return b
	}
	if b == nil {
		return a
	}
	return (&Blob{Segs: append(append([]BSeg{}, a.Segs...), b.Segs...)}).norm()
}

func blobFromSlice(g *G, s Slice) *Blob {
	conc := true
	for _, e := range s {
		if e.(Int).T != nil {
			conc = false
		}
	}
	if conc {
		b := make([]byte, len(s))
		for i, e := range s {
			b[i] = byte(e.(Int).C)
		}
		return blobBytes(b)
	}
	ts := make([]*Term, len(s))
	for i, e := range s {
		ts[i] = e.(Int).Term(8)
	}
	return &Blob{Segs: []BSeg{{Sym: ts}}}
}

// checkFresh reports a read of bytes whose backing array has been overwritten since this
// slice was taken (recycled or pooled buffer, append(x[:0], …), re-decoded RawMessage).
func (x *Blob) checkFresh(g *G) {
	if x != nil && x.bk != nil && x.bgen != x.bk.gen {
		r := g.run
		r.classTags = append(r.classTags, "stale-buffer-read")
		r.buildViolation(g, "payload-bytes-stable-until-consumed", "a []byte that aliases a recycled buffer was read after the buffer had been overwritten by a later frame: "+g.where())
		panic(abortRun{})
	}
}

// asBlob views any []byte value as a blob.
func (g *G) asBlob(v Value) *Blob {
	switch x := v.(type) {
	case *Blob:
		if x == nil {
			return &Blob{}
		}
		x.checkFresh(g)
		return x
	case Slice:
		return blobFromSlice(g, x)
	case nil:
		return &Blob{}
	}
	panic(fmt.Sprintf("asBlob %T", v))
}

func isNilBytes(v Value) bool {
	switch x := v.(type) {
	case *Blob:
		return x == nil
	case Slice:
		return x == nil
	case nil:
		return true
	}
	return false
}

func (b *Blob) ConcreteBytes() ([]byte, bool) {
	if b == nil {
		return nil, true
	}
	var out []byte
	for _, s := range b.Segs {
		switch {
		case s.D != nil:
			if !s.D.concrete() {
				return nil, false
			}
			var sb strings.Builder
			s.D.render(&sb)
			out = append(out, sb.String()...)
		case s.Sym != nil || s.Pad != nil || s.Opq != nil:
			return nil, false
		default:
			out = append(out, s.B...)
		}
	}
	return out, true
}

func (b *Blob) Len(g *G) Value {
	if b == nil {
		return Int{}
	}
	if b.sink {
		if b.sinkLen != nil {
			return mkInt(b.sinkLen)
		}
		return Int{C: 512}
	}
	t := BVConst(0, 64)
	for _, s := range b.Segs {
		switch {
		case s.D != nil:
			t = BVBin("bvadd", t, s.D.length(g))
		case s.Sym != nil:
			t = BVBin("bvadd", t, BVConst(uint64(len(s.Sym)), 64))
		case s.Pad != nil:
			t = BVBin("bvadd", t, s.Pad)
		case s.Opq != nil:
			t = BVBin("bvadd", t, s.Opq)
		default:
			t = BVBin("bvadd", t, BVConst(uint64(len(s.B)), 64))
		}
	}
	return mkInt(t)
}

func (b *Blob) ToStr(g *G) Str {
	b.checkFresh(g)
	if bs, ok := b.ConcreteBytes(); ok {
		return S(string(bs))
	}
	// symbolic bytes are expressible; documents are not
	var segs []Seg
	for _, s := range b.Segs {
		switch {
		case s.Sym != nil:
			for _, t := range s.Sym {
				segs = append(segs, Seg{B: t})
			}
		case s.D != nil:
			if s.D.concrete() {
				var sb strings.Builder
				s.D.render(&sb)
				segs = append(segs, Seg{C: sb.String()})
			} else {
				if s.D.K == DNum {
					segs = append(segs, Seg{Q: "jsonnum(" + s.D.String() + ")"})
				} else {
					segs = append(segs, Seg{Q: "json(" + s.D.String() + ")"})
				}
			}
		case s.Pad != nil:
			segs = append(segs, Seg{Q: "pad(" + s.Pad.Key() + ")"})
		case s.Opq != nil:
			segs = append(segs, Seg{Q: "opq(" + s.Opq.Key() + ")"})
		default:
			segs = append(segs, Seg{C: string(s.B)})
		}
	}
	return normStr(segs)
}

// byteTerms flattens into byte terms when every byte is individually known.
func (b *Blob) byteTerms() ([]*Term, bool) {
	var out []*Term
	if b == nil {
		return nil, true
	}
	for _, s := range b.Segs {
		switch {
		case s.Sym != nil:
			out = append(out, s.Sym...)
		case s.Pad != nil || s.Opq != nil:
			return nil, false
		case s.D != nil:
			if !s.D.concrete() {
				return nil, false
			}
			var sb strings.Builder
			s.D.render(&sb)
			for _, c := range []byte(sb.String()) {
				out = append(out, BVConst(uint64(c), 8))
			}
		default:
			for _, c := range s.B {
				out = append(out, BVConst(uint64(c), 8))
			}
		}
	}
	return out, true
}

func blobFromTerms(ts []*Term) *Blob {
	// runs of constant bytes become concrete segments, the rest symbolic ones
	var segs []BSeg
	var cb []byte
	var sb []*Term
	for _, t := range ts {
		if t.IsConst() {
			if sb != nil {
				segs = append(segs, BSeg{Sym: sb})
				sb = nil
			}
			cb = append(cb, byte(t.BV))
		} else {
			if cb != nil {
				segs = append(segs, BSeg{B: cb})
				cb = nil
			}
			sb = append(sb, t)
		}
	}
	if cb != nil {
		segs = append(segs, BSeg{B: cb})
	}
	if sb != nil {
		segs = append(segs, BSeg{Sym: sb})
	}
	return &Blob{Segs: segs}
}

func newSinkBlob(g *G, n Int) *Blob { return &Blob{sink: true, sinkLen: n.T} }

// CopyFrom implements copy(dst, src) for a sink made by make([]byte, len(src)).
func (b *Blob) CopyFrom(g *G, src Value) Value {
	if !b.sink {
		g.inconclusive("copy into a non-sink blob")
	}
	s := g.asBlob(src)
	sl := s.Len(g).(Int)
	if b.sinkLen == nil {
		if b.got == nil {
			b.got = s
		} else {
			b.got = blobConcat(g, b.got, s)
		}
		return sl
	}
	if !termEq(sl.Term(64), b.sinkLen) {
		g.inconclusive("copy between blobs of different symbolic length")
	}
	b.sink = false
	b.Segs = s.Segs
	b.sinkLen = nil
	return sl
}

func (b *Blob) IndexAddr(g *G, idx Int) Value {
	cell := new(Value)
	if ts, ok := b.byteTerms(); ok {
		k := g.concreteIndex(idx, len(ts), "bytes")
		*cell = mkInt(ts[k])
		return cell
	}
	if len(b.Segs) == 0 {
		g.goPanic("runtime error: index out of range [0] with length 0")
	}
	n := b.Len(g).(Int)
	if idx.T == nil && idx.C == 0 {
		// nonempty?
		if g.branch(mkBool(Eq(n.Term(64), BVConst(0, 64)))) {
			g.goPanic("runtime error: index out of range [0] with length 0")
		}
		s := b.Segs[0]
		switch {
		case s.D != nil:
			*cell = s.D.firstByte(g)
		case s.Pad != nil || s.Opq != nil:
			g.inconclusive("index into padding/opaque bytes")
		case s.Sym != nil:
			*cell = mkInt(s.Sym[0])
		default:
			*cell = Int{C: uint64(s.B[0])}
		}
		return cell
	}
	last := BVBin("bvsub", n.Term(64), BVConst(1, 64))
	if termEq(idx.Term(64), last) {
		s := b.Segs[len(b.Segs)-1]
		switch {
		case s.D != nil:
			*cell = s.D.lastByte(g)
		case s.Pad != nil || s.Opq != nil:
			g.inconclusive("index into padding/opaque bytes")
		case s.Sym != nil:
			*cell = mkInt(s.Sym[len(s.Sym)-1])
		default:
			*cell = Int{C: uint64(s.B[len(s.B)-1])}
		}
		return cell
	}
	g.inconclusive("index into abstract blob at " + showVal(idx))
	return nil
}

func (b *Blob) SliceOp(g *G, lo, hi *Int) Value {
	n := b.Len(g).(Int)
	loZero := lo == nil || (lo.T == nil && lo.C == 0)
	hiFull := hi == nil || termEq(hi.Term(64), n.Term(64))
	if loZero && hiFull {
		return b
	}
	if hi != nil && hi.T == nil && hi.C == 0 && loZero && len(b.Segs) > 0 {
		// b[:0] of a non-empty slice keeps b's array: whatever is appended to it overwrites
		// what b (and everybody who still holds b) sees. Give the array an identity.
		if b.bk == nil {
			g.run.nextObj++
			b.bk = &Backing{id: g.run.nextObj}
			b.bgen = b.bk.gen
		}
		return &Blob{bk: b.bk, bgen: b.bgen, reuse: true}
	}
	if ts, ok := b.byteTerms(); ok {
		l, h := 0, len(ts)
		if lo != nil {
			if lo.T != nil {
				g.inconclusive("symbolic slice bound on bytes")
			}
			l = int(lo.C)
		}
		if hi != nil {
			if hi.T != nil {
				g.inconclusive("symbolic slice bound on bytes")
			}
			h = int(hi.C)
		}
		if l < 0 || h > len(ts) || l > h {
			g.goPanic("runtime error: slice bounds out of range")
		}
		return blobFromTerms(ts[l:h])
	}
	if hi != nil && hi.T == nil && hi.C == 0 && loZero {
		return &Blob{bk: b.bk, bgen: b.bgen}
	}
	// raw[1:len(raw)-1] of a single JSON string: the escaped text between the quotes
	if len(b.Segs) == 1 && b.Segs[0].D != nil && b.Segs[0].D.K == DStr && lo != nil && lo.T == nil && lo.C == 1 && hi != nil &&
		termEq(hi.Term(64), BVBin("bvsub", n.Term(64), BVConst(1, 64))) {
		return blobFromTerms(g.jsonEscapedBytes(b.Segs[0].D.S))
	}
	g.inconclusive("slicing an abstract blob")
	return nil
}

// trimSpace strips leading and trailing JSON/ASCII whitespace.
func (b *Blob) trimSpace() *Blob {
	segs := append([]BSeg{}, b.Segs...)
	isSp := func(c byte) bool { return c == ' ' || c == '\t' || c == '\n' || c == '\r' || c == '\v' || c == '\f' }
	for len(segs) > 0 {
		s := segs[0]
		if s.Pad != nil {
			segs = segs[1:]
			continue
		}
		if s.D == nil && s.Sym == nil && s.Opq == nil {
			i := 0
			for i < len(s.B) && isSp(s.B[i]) {
				i++
			}
			if i == len(s.B) {
				segs = segs[1:]
				continue
			}
			segs[0] = BSeg{B: s.B[i:]}
		}
		break
	}
	for len(segs) > 0 {
		s := segs[len(segs)-1]
		if s.Pad != nil {
			segs = segs[:len(segs)-1]
			continue
		}
		if s.D == nil && s.Sym == nil && s.Opq == nil {
			i := len(s.B)
			for i > 0 && isSp(s.B[i-1]) {
				i--
			}
			if i == 0 {
				segs = segs[:len(segs)-1]
				continue
			}
			segs[len(segs)-1] = BSeg{B: s.B[:i]}
		}
		break
	}
	return &Blob{Segs: segs}
}

func (b *Blob) hasSymBytes() bool {
	for _, s := range b.Segs {
		if s.Sym != nil || s.Opq != nil {
			return true
		}
	}
	return false
}

// jsonEscapedBytes renders the content of a JSON string literal (without the
// quotes) as encoding/json writes it, forking on the escape class of each
// symbolic byte (plain, short escape, \u00XX).
func (g *G) jsonEscapedBytes(s Str) []*Term {
	bs, ok := s.Bytes()
	if !ok {
		g.inconclusive("JSON escaping of an opaque string")
	}
	hex := func(n *Term) *Term { // n: 4-bit value in 8 bits
		return Ite(BVCmp("bvult", n, BVConst(10, 8)), BVBin("bvadd", n, BVConst('0', 8)), BVBin("bvadd", n, BVConst('a'-10, 8)))
	}
	var out []*Term
	lit := func(str string) {
		for i := 0; i < len(str); i++ {
			out = append(out, BVConst(uint64(str[i]), 8))
		}
	}
	for _, b := range bs {
		eq := func(c byte) *Term { return Eq(b, BVConst(uint64(c), 8)) }
		short := Or(eq('"'), Or(eq('\\'), Or(eq('\n'), Or(eq('\r'), eq('\t')))))
		long := And(Not(short), Or(BVCmp("bvult", b, BVConst(0x20, 8)), Or(eq('<'), Or(eq('>'), eq('&')))))
		switch {
		case g.branch(mkBool(short)):
			lit("\\")
			out = append(out, Ite(eq('"'), BVConst('"', 8), Ite(eq('\\'), BVConst('\\', 8), Ite(eq('\n'), BVConst('n', 8), Ite(eq('\r'), BVConst('r', 8), BVConst('t', 8))))))
		case g.branch(mkBool(long)):
			lit("\\u00")
			out = append(out, hex(BVBin("bvlshr", b, BVConst(4, 8))), hex(BVBin("bvand", b, BVConst(15, 8))))
		default:
			out = append(out, b)
		}
	}
	return out
}
