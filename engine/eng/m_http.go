package eng

// A sliver of net/http: headers, request context plumbing. Handlers and
// ResponseWriters are ordinary (harness or library) code.

import (
	"net/textproto"

	"golang.org/x/tools/go/ssa"
)

// functions of otherwise denied packages whose real SSA bodies are simple and are interpreted
var interpretAllow = map[string]bool{
	"(*net/http.Request).Context":     true,
	"(*net/http.Request).WithContext": true,
	"(*net/http.Request).FormValue":   true,
	"(net/url.Values).Get":            true,
	"(net/url.Values).Set":            true,
	"net/http.HandlerFunc.ServeHTTP":  true,
	"(net/http.HandlerFunc).ServeHTTP": true,
	"io.NopCloser":                    true,
}

func hdrKey(g *G, v Value) Str { return S(textproto.CanonicalMIMEHeaderKey(concStr(g, v))) }

func init() {
	reg("(net/http.Header).Get", func(g *G, fr *Frame, fn *ssa.Function, a []Value) Value {
		m, _ := a[0].(*MapV)
		i := g.mapFind(m, hdrKey(g, a[1]))
		if i < 0 {
			return S("")
		}
		vs, _ := m.Vals[i].(Slice)
		if len(vs) == 0 {
			return S("")
		}
		return vs[0]
	})
	reg("(net/http.Header).Set", func(g *G, fr *Frame, fn *ssa.Function, a []Value) Value {
		m, _ := a[0].(*MapV)
		if m == nil {
			g.goPanicPlain("assignment to entry in nil map")
		}
		g.mapSet(m, hdrKey(g, a[1]), Slice{a[2]})
		return nil
	})
	reg("(net/http.Header).Add", func(g *G, fr *Frame, fn *ssa.Function, a []Value) Value {
		m, _ := a[0].(*MapV)
		if m == nil {
			g.goPanicPlain("assignment to entry in nil map")
		}
		k := hdrKey(g, a[1])
		if i := g.mapFind(m, k); i >= 0 {
			m.Vals[i] = append(append(Slice{}, m.Vals[i].(Slice)...), a[2])
		} else {
			g.mapSet(m, k, Slice{a[2]})
		}
		return nil
	})
	reg("(net/http.Header).Del", func(g *G, fr *Frame, fn *ssa.Function, a []Value) Value {
		if m, _ := a[0].(*MapV); m != nil {
			g.mapDelete(m, hdrKey(g, a[1]))
		}
		return nil
	})
	reg("(net/http.Header).Clone", func(g *G, fr *Frame, fn *ssa.Function, a []Value) Value {
		m, _ := a[0].(*MapV)
		if m == nil {
			return (*MapV)(nil)
		}
		n := &MapV{KT: m.KT}
		for i := range m.Keys {
			n.Keys = append(n.Keys, m.Keys[i])
			n.Vals = append(n.Vals, append(Slice{}, m.Vals[i].(Slice)...))
		}
		return n
	})
}
