package eng

// A sliver of net/http: headers, request context plumbing. Handlers and
// ResponseWriters are ordinary (harness or library) code.

import (
	"fmt"
	"go/token"
	"go/types"
	"net/http"
	"net/textproto"
	"net/url"
	"path"

	"golang.org/x/tools/go/ssa"
)

// functions of otherwise denied packages whose real SSA bodies are simple and are interpreted
var interpretAllow = map[string]bool{
	"(*net/http.Request).Context":     true,
	"(*net/http.Request).WithContext": true,
	"(*net/http.Request).FormValue":   true,
	"(net/url.Values).Get":            true,
	"(net/url.Values).Set":            true,
	"net/http.HandlerFunc.ServeHTTP":  true,
	"(net/http.HandlerFunc).ServeHTTP": true,
	"io.NopCloser":                    true,
}

func hdrKey(g *G, v Value) Str { return S(textproto.CanonicalMIMEHeaderKey(concStr(g, v))) }

func init() {
	reg("(net/http.Header).Get", func(g *G, fr *Frame, fn *ssa.Function, a []Value) Value {
		m, _ := a[0].(*MapV)
		i := g.mapFind(m, hdrKey(g, a[1]))
		if i < 0 {
			return S("")
		}
		vs, _ := m.Vals[i].(Slice)
		if len(vs) == 0 {
			return S("")
		}
		return vs[0]
	})
	reg("(net/http.Header).Set", func(g *G, fr *Frame, fn *ssa.Function, a []Value) Value {
		m, _ := a[0].(*MapV)
		if m == nil {
			g.goPanicPlain("assignment to entry in nil map")
		}
		g.mapSet(m, hdrKey(g, a[1]), Slice{a[2]})
		return nil
	})
	reg("(net/http.Header).Add", func(g *G, fr *Frame, fn *ssa.Function, a []Value) Value {
		m, _ := a[0].(*MapV)
		if m == nil {
			g.goPanicPlain("assignment to entry in nil map")
		}
		k := hdrKey(g, a[1])
		if i := g.mapFind(m, k); i >= 0 {
			m.Vals[i] = append(append(Slice{}, m.Vals[i].(Slice)...), a[2])
		} else {
			g.mapSet(m, k, Slice{a[2]})
		}
		return nil
	})
	reg("(net/http.Header).Del", func(g *G, fr *Frame, fn *ssa.Function, a []Value) Value {
		if m, _ := a[0].(*MapV); m != nil {
			g.mapDelete(m, hdrKey(g, a[1]))
		}
		return nil
	})
	reg("(net/http.Header).Clone", func(g *G, fr *Frame, fn *ssa.Function, a []Value) Value {
		m, _ := a[0].(*MapV)
		if m == nil {
			return (*MapV)(nil)
		}
		n := &MapV{KT: m.KT}
		for i := range m.Keys {
			n.Keys = append(n.Keys, m.Keys[i])
			n.Vals = append(n.Vals, append(Slice{}, m.Vals[i].(Slice)...))
		}
		return n
	})
}

func (g *G) urlValue(u *url.URL) Value {
	t := g.run.P.NamedType("net/url", "URL")
	p := new(Value)
	*p = g.mkStruct(t, map[string]Value{
		"Scheme": S(u.Scheme), "Opaque": S(u.Opaque), "Host": S(u.Host), "Path": S(u.Path), "RawPath": S(u.RawPath),
		"OmitHost": Bool{C: u.OmitHost}, "ForceQuery": Bool{C: u.ForceQuery}, "RawQuery": S(u.RawQuery), "Fragment": S(u.Fragment), "RawFragment": S(u.RawFragment),
	})
	return p
}

func (g *G) urlNative(p Value) *url.URL {
	ptr, _ := p.(*Value)
	if ptr == nil {
		g.goPanic("runtime error: invalid memory address or nil pointer dereference (nil *url.URL)")
	}
	t := g.run.P.NamedType("net/url", "URL")
	s := (*ptr).(Struct)
	f := func(n string) string { return concStr(g, fieldByName(t, s, n)) }
	return &url.URL{Scheme: f("Scheme"), Opaque: f("Opaque"), Host: f("Host"), Path: f("Path"), RawPath: f("RawPath"), RawQuery: f("RawQuery"), Fragment: f("Fragment"), RawFragment: f("RawFragment"),
		OmitHost: fieldByName(t, s, "OmitHost").(Bool).C, ForceQuery: fieldByName(t, s, "ForceQuery").(Bool).C}
}

func init() {
	reg("net/url.Parse", func(g *G, fr *Frame, fn *ssa.Function, a []Value) Value {
		u, err := url.Parse(concStr(g, a[0]))
		if err != nil {
			return Tuple{(*Value)(nil), g.mkError(S(err.Error()), Iface{})}
		}
		return Tuple{g.urlValue(u), Iface{}}
	})
	reg("(*net/url.URL).String", func(g *G, fr *Frame, fn *ssa.Function, a []Value) Value {
		return S(g.urlNative(a[0]).String())
	})
	reg("path.Join", func(g *G, fr *Frame, fn *ssa.Function, a []Value) Value {
		var parts []string
		for _, e := range a[0].(Slice) {
			parts = append(parts, concStr(g, e))
		}
		return S(path.Join(parts...))
	})
	reg("path.Base", func(g *G, fr *Frame, fn *ssa.Function, a []Value) Value {
		return S(path.Base(concStr(g, a[0])))
	})
	reg("net/http.StatusText", func(g *G, fr *Frame, fn *ssa.Function, a []Value) Value {
		return S(http.StatusText(int(a[0].(Int).C)))
	})
	newReq := func(g *G, ctx Value, method, rawurl, body Value) Value {
		u, err := url.Parse(concStr(g, rawurl))
		if err != nil {
			return Tuple{(*Value)(nil), g.mkError(S(err.Error()), Iface{})}
		}
		t := g.run.P.NamedType("net/http", "Request")
		b, _ := body.(Iface)
		var rc Value = Iface{}
		if b.T != nil {
			if types.Implements(b.T, under(g.run.P.NamedType("io", "ReadCloser")).(*types.Interface)) {
				rc = b
			} else {
				nop := g.run.P.Pkgs["io"].Func("NopCloser")
				rc = g.callFn(&Closure{Fn: nop}, []Value{b}, g.top, token.NoPos)
			}
		}
		m := concStr(g, method)
		if m == "" {
			m = "GET"
		}
		p := new(Value)
		*p = g.mkStruct(t, map[string]Value{"Method": S(m), "URL": g.urlValue(u), "Proto": S("HTTP/1.1"), "ProtoMajor": Int{C: 1}, "ProtoMinor": Int{C: 1},
			"Header": &MapV{KT: types.Typ[types.String]}, "Body": rc, "Host": S(u.Host), "ctx": ctx})
		return Tuple{p, Iface{}}
	}
	reg("net/http.NewRequest", func(g *G, fr *Frame, fn *ssa.Function, a []Value) Value {
		bg := baseIntrinsics["context.Background"](g, fr, fn, nil)
		return newReq(g, bg, a[0], a[1], a[2])
	})
	reg("net/http.NewRequestWithContext", func(g *G, fr *Frame, fn *ssa.Function, a []Value) Value {
		return newReq(g, a[0], a[1], a[2], a[3])
	})
}

func init() {
	regV("MountHTTP", func(g *G, a []Value) Value {
		r := g.run
		r.nextObj++
		base := fmt.Sprintf("http://mount%d", r.nextObj)
		r.env.httpSrv[base] = &HTTPMount{handler: a[0]}
		return S(base)
	})
	// post serves the request in-process. timeout (nil or a concrete/symbolic duration) is
	// http.Client.Timeout: when non-zero, a timer is armed whose firing (an optional environment
	// event, like every timer) aborts the exchange — the server then sees the body end with
	// io.ErrUnexpectedEOF and the client gets a time-out error.
	post := func(g *G, fr *Frame, fn *ssa.Function, rawURL, ctype Value, bodyArg Value, timeout Value) Value {
		g.model("http.Post is served in-process by the handler mounted with verif.MountHTTP")
		raw := concStr(g, rawURL)
		u, err := url.Parse(raw)
		if err != nil {
			return Tuple{(*Value)(nil), g.mkError(S(err.Error()), Iface{})}
		}
		m := g.run.env.httpSrv[u.Scheme+"://"+u.Host]
		if m == nil {
			return Tuple{(*Value)(nil), g.mkError(S("Post "+raw+": connection refused"), Iface{})}
		}
		g.schedPoint(&Op{desc: "http.Post " + u.Path, enabled: func() bool { return true }})
		bg := baseIntrinsics["context.Background"](g, fr, fn, nil)
		P := g.run.P
		rt := P.NamedType("net/http", "Request")
		b, _ := bodyArg.(Iface)
		var expired *Value
		var timer *Timer
		if d, ok := timeout.(Int); ok && !(d.T == nil && d.C == 0) {
			g.model("http.Client.Timeout: the whole exchange may be aborted by a timer firing (optional event)")
			expired = new(Value)
			*expired = Bool{C: false}
			timer = g.run.env.newTimer(d, false)
			timer.viaAfter = true
			timer.owner = g
			cell := expired
			timer.fn = &Closure{Name: "http.Client.Timeout", Native: func(g *G, args []Value) Value {
				*cell = Bool{C: true}
				return nil
			}}
			if b.T != nil {
				tb := P.NamedType(VerifPkg, "TimeoutBody")
				tv := new(Value)
				*tv = g.mkStruct(tb, map[string]Value{"R": b, "Expired": expired})
				b = Iface{T: types.NewPointer(tb), V: tv}
			}
		}
		var rc Value = Iface{}
		if b.T != nil {
			nop := P.Pkgs["io"].Func("NopCloser")
			rc = g.callFn(&Closure{Fn: nop}, []Value{b}, g.top, token.NoPos)
		}
		hdr := &MapV{KT: types.Typ[types.String]}
		g.mapSet(hdr, S("Content-Type"), Slice{ctype})
		req := new(Value)
		*req = g.mkStruct(rt, map[string]Value{"Method": S("POST"), "URL": g.urlValue(u), "Proto": S("HTTP/1.1"), "Header": hdr, "Body": rc, "Host": S(u.Host), "ctx": bg, "RemoteAddr": S("uploader")})
		wt := P.NamedType(VerifPkg, "WSResponseWriter")
		wv := new(Value)
		*wv = g.mkStruct(wt, map[string]Value{"Hdr": &MapV{KT: types.Typ[types.String]}})
		h := m.handler.(Iface)
		serve := g.findMethod(h.T, "ServeHTTP")
		g.callFn(&Closure{Fn: serve}, []Value{h.V, Iface{T: types.NewPointer(wt), V: wv}, req}, g.top, token.NoPos)
		if timer != nil {
			timer.armed = false
			if (*expired).(Bool).C {
				return Tuple{(*Value)(nil), g.mkError(S("Post \""+raw+"\": context deadline exceeded (Client.Timeout exceeded while awaiting headers)"), Iface{})}
			}
		}
		st := fieldByName(wt, (*wv).(Struct), "Status").(Int)
		if st.C == 0 {
			st = Int{C: 200}
		}
		respT := P.NamedType("net/http", "Response")
		empty := new(Value)
		es := zero(P.NamedType("bytes", "Reader")).(Struct)
		*empty = es
		body := g.callFn(&Closure{Fn: P.Pkgs["io"].Func("NopCloser")}, []Value{Iface{T: types.NewPointer(P.NamedType("bytes", "Reader")), V: empty}}, g.top, token.NoPos)
		resp := new(Value)
		*resp = g.mkStruct(respT, map[string]Value{"StatusCode": st, "Status": S(http.StatusText(int(st.C))), "Body": body, "Header": &MapV{KT: types.Typ[types.String]}})
		return Tuple{resp, Iface{}}
	}
	reg("(*net/http.Client).Do", func(g *G, fr *Frame, fn *ssa.Function, a []Value) Value {
		g.model("http.Client.Do = Transport.RoundTrip (no redirects, cookies or timeouts)")
		cp, _ := a[0].(*Value)
		if cp == nil {
			g.goPanic("runtime error: invalid memory address or nil pointer dereference (nil *http.Client)")
		}
		ct := g.run.P.NamedType("net/http", "Client")
		tr, _ := fieldByName(ct, (*cp).(Struct), "Transport").(Iface)
		if tr.T == nil {
			// no custom transport: the request is served in-process by the mounted handler, like http.Post
			rp, _ := a[1].(*Value)
			if rp == nil {
				g.goPanic("runtime error: invalid memory address or nil pointer dereference (nil *http.Request)")
			}
			rqT := g.run.P.NamedType("net/http", "Request")
			rq := (*rp).(Struct)
			if m := concStr(g, fieldByName(rqT, rq, "Method")); m != "POST" {
				g.inconclusive("http.Client.Do without a harness transport: method " + m)
			}
			u := g.urlNative(fieldByName(rqT, rq, "URL"))
			var ctype Value = S("")
			if hm, _ := fieldByName(rqT, rq, "Header").(*MapV); hm != nil {
				if i := g.mapFind(hm, S("Content-Type")); i >= 0 {
					if sl, _ := hm.Vals[i].(Slice); len(sl) > 0 {
						ctype = sl[0]
					}
				}
			}
			g.model("http.Client.Do without a Transport = http.Post of the request's URL, Content-Type and body (other headers, ContentLength and the request context are not transmitted)")
			return post(g, fr, fn, S(u.String()), ctype, fieldByName(rqT, rq, "Body"), fieldByName(ct, (*cp).(Struct), "Timeout"))
		}
		rt := g.findMethod(tr.T, "RoundTrip")
		res := g.callFn(&Closure{Fn: rt}, []Value{tr.V, a[1]}, g.top, token.NoPos).(Tuple)
		return res
	})
	reg("net/http.Post", func(g *G, fr *Frame, fn *ssa.Function, a []Value) Value {
		return post(g, fr, fn, a[0], a[1], a[2], nil)
	})
	reg("(*net/http.Client).Post", func(g *G, fr *Frame, fn *ssa.Function, a []Value) Value {
		cl, _ := a[0].(*Value)
		if cl == nil {
			g.goPanic("runtime error: invalid memory address or nil pointer dereference")
		}
		cs := (*cl).(Struct)
		ct := g.run.P.NamedType("net/http", "Client")
		if tr, _ := fieldByName(ct, cs, "Transport").(Iface); tr.T != nil {
			g.inconclusive("(*http.Client).Post with a custom Transport")
		}
		return post(g, fr, fn, a[1], a[2], a[3], fieldByName(ct, cs, "Timeout"))
	})
	reg("net/http.Error", func(g *G, fr *Frame, fn *ssa.Function, a []Value) Value {
		w := a[0].(Iface)
		wh := g.findMethod(w.T, "WriteHeader")
		g.callFn(&Closure{Fn: wh}, []Value{w.V, a[2]}, g.top, token.NoPos)
		g.writeTo(w, g.strToBytes(strConcat(a[1].(Str), S("\n"))))
		return nil
	})
}
