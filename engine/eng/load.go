package eng

import (
	"fmt"
	"go/types"
	"os"
	"path/filepath"
	"sort"
	"strings"
	"sync"

	"golang.org/x/tools/go/packages"
	"golang.org/x/tools/go/ssa"
	"golang.org/x/tools/go/ssa/ssautil"
)

const ModPath = "github.com/filecoin-project/go-jsonrpc"

// Program is the immutable, shared result of loading /repo + harnesses.
type Program struct {
	Prog     *ssa.Program
	Pkgs     map[string]*ssa.Package // by import path
	RepoDir  string
	fnInfo   sync.Map // *ssa.Function -> *fnInfo
	InitPkgs []*ssa.Package // packages whose init is executed per run, in dependency order
	Intr     map[string]Intrinsic
	LoadErrs []string
	stdTypes map[string]types.Type
}

type fnInfo struct {
	idx map[ssa.Value]int
	n   int
}

type LoadConfig struct {
	RepoDir    string            // /repo
	HarnessDir string            // /verif/harness (module with replace => RepoDir)
	Patterns   []string          // harness packages to load
	Kernels    map[string]string // virtual path under RepoDir -> real file (in-package kernel harnesses)
	Tags       []string
}

func Load(cfg LoadConfig) (*Program, error) {
	overlay := map[string][]byte{}
	for virt, real := range cfg.Kernels {
		b, err := os.ReadFile(real)
		if err != nil {
			return nil, err
		}
		overlay[filepath.Join(cfg.RepoDir, virt)] = b
	}
	env := append(os.Environ(), "GOFLAGS=-mod=mod", "GOPROXY=off", "GOSUMDB=off", "GOTOOLCHAIN=local")
	pc := &packages.Config{
		Mode:       packages.LoadAllSyntax,
		Dir:        cfg.HarnessDir,
		Env:        env,
		Overlay:    overlay,
		BuildFlags: []string{"-tags=" + strings.Join(append([]string{"verif"}, cfg.Tags...), ",")},
	}
	pats := append([]string{}, cfg.Patterns...)
	pats = append(pats, ModPath+"/...")
	pkgs, err := packages.Load(pc, pats...)
	if err != nil {
		return nil, err
	}
	var errs []string
	packages.Visit(pkgs, nil, func(p *packages.Package) {
		for _, e := range p.Errors {
			errs = append(errs, e.Error())
		}
	})
	if len(errs) > 0 {
		sort.Strings(errs)
		return &Program{LoadErrs: errs}, fmt.Errorf("load errors: %s", strings.Join(errs, "; "))
	}
	prog, _ := ssautil.AllPackages(pkgs, ssa.InstantiateGenerics)
	prog.Build()
	p := &Program{Prog: prog, Pkgs: map[string]*ssa.Package{}, RepoDir: cfg.RepoDir, Intr: map[string]Intrinsic{}, stdTypes: map[string]types.Type{}}
	for _, sp := range prog.AllPackages() {
		p.Pkgs[sp.Pkg.Path()] = sp
	}
	// init order: dependency order restricted to interpreted-init packages
	seen := map[*packages.Package]bool{}
	var visit func(pk *packages.Package)
	visit = func(pk *packages.Package) {
		if seen[pk] {
			return
		}
		seen[pk] = true
		var imps []string
		for k := range pk.Imports {
			imps = append(imps, k)
		}
		sort.Strings(imps)
		for _, k := range imps {
			visit(pk.Imports[k])
		}
		if runsInit(pk.PkgPath) {
			if sp := p.Pkgs[pk.PkgPath]; sp != nil {
				p.InitPkgs = append(p.InitPkgs, sp)
			}
		}
	}
	for _, pk := range pkgs {
		visit(pk)
	}
	registerIntrinsics(p)
	return p, nil
}

// packages whose package initialiser is interpreted for every run
func runsInit(path string) bool {
	if strings.HasPrefix(path, ModPath) || strings.HasPrefix(path, "gjvharness") {
		return true
	}
	switch path {
	case "io", "context", "container/list", "unicode/utf8", "strings", "path", "io/fs":
		return true
	}
	return false
}

func isModulePkg(path string) bool { return strings.HasPrefix(path, ModPath) }

func (p *Program) info(fn *ssa.Function) *fnInfo {
	if v, ok := p.fnInfo.Load(fn); ok {
		return v.(*fnInfo)
	}
	fi := &fnInfo{idx: map[ssa.Value]int{}}
	add := func(v ssa.Value) {
		fi.idx[v] = fi.n
		fi.n++
	}
	for _, x := range fn.Params {
		add(x)
	}
	for _, x := range fn.FreeVars {
		add(x)
	}
	for _, b := range fn.Blocks {
		for _, in := range b.Instrs {
			if v, ok := in.(ssa.Value); ok {
				add(v)
			}
		}
	}
	v, _ := p.fnInfo.LoadOrStore(fn, fi)
	return v.(*fnInfo)
}

// NamedType finds pkg.Name among loaded packages.
func (p *Program) NamedType(pkg, name string) types.Type {
	k := pkg + "." + name
	if t, ok := p.stdTypes[k]; ok {
		return t
	}
	sp := p.Pkgs[pkg]
	if sp == nil {
		panic("package not loaded: " + pkg)
	}
	o := sp.Pkg.Scope().Lookup(name)
	if o == nil {
		panic("type not found: " + k)
	}
	return o.Type()
}

func (p *Program) FuncByName(pkg, name string) *ssa.Function {
	sp := p.Pkgs[pkg]
	if sp == nil {
		return nil
	}
	return sp.Func(name)
}
