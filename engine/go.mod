module gjv

go 1.23

require golang.org/x/tools v0.29.0

require (
	golang.org/x/mod v0.22.0 // indirect
	golang.org/x/sync v0.10.0 // indirect
)
require github.com/google/uuid v1.1.1
require github.com/gorilla/websocket v1.4.2
