//go:build verif

package jsonrpc

import "time"

// In-package entry points for kernel harnesses (injected by overlay only; never committed to /repo).

func VerifBackoffNext(minDelay, maxDelay time.Duration, attempt int) time.Duration {
	b := backoff{minDelay: minDelay, maxDelay: maxDelay}
	return b.next(attempt)
}

func VerifNormalizeID(id interface{}) (interface{}, error) { return normalizeID(id) }
