#!/usr/bin/env python3
"""Regenerates harness/<pkg>/replay_test.go and MANIFEST.json from checks.json + tools/manifest_meta.json."""
import json, os, re, glob
V = '/verif'
# --- replay tests
for d in sorted(glob.glob(V + '/harness/*/')):
    p = os.path.basename(d.rstrip('/'))
    if p == 'verif':
        continue
    names = set()
    tagged = True
    for f in glob.glob(d + '*.go'):
        if f.endswith('_test.go'):
            continue
        if '//go:build verif' not in open(f).read():
            tagged = False
        names |= set(re.findall(r'^func (Harness[A-Za-z0-9_]*)\(\)', open(f).read(), re.M))
    if not names:
        continue
    out = ('//go:build verif\n\n' if tagged else '') + 'package %s\n\nimport (\n\t"testing"\n\n\t"gjvharness/verif"\n)\n\nfunc TestReplay(t *testing.T) {\n\tverif.ReplayMain(map[string]func(){\n' % p
    w = max(len(n) for n in names) + 3
    for n in sorted(names):
        out += '\t\t%s %s,\n' % (('"%s":' % n).ljust(w), n)
    out += '\t})\n}\n'
    open(d + 'replay_test.go', 'w').write(out)
# --- manifest
checks = json.load(open(V + '/checks.json'))
meta = json.load(open(V + '/tools/manifest_meta.json'))
ids = [json.loads(l)['id'] for l in open(V + '/properties.jsonl')]
m = {
    "version": 1,
    "setup_cmd": "cd /verif/engine && GOFLAGS=-mod=mod GOPROXY=off GOSUMDB=off GOTOOLCHAIN=local go build -o /verif/bin/gjv ./cmd/gjv && cd /verif/harness && GOFLAGS=-mod=mod GOPROXY=off GOSUMDB=off GOTOOLCHAIN=local go vet ./... && /verif/bin/gjv selftest",
    "hooks": {"guard": "verif", "enable": "no source hooks are needed: the engine re-encodes /repo's SSA on every run; in-package kernel harnesses are injected with a go/packages overlay (//go:build verif) and never written into /repo",
              "baseline_off_cmd": "cd /repo && GOFLAGS=-mod=mod GOPROXY=off go test -vet=off -count=1 ./...", "source_commits": [], "add_only": True},
    "engines": [{"name": "gjv", "path": "/verif/engine", "serves_properties": sorted(checks.keys()),
                 "kind_free_text": "symbolic executor over go/ssa of the real go-jsonrpc code (own SSA->SMT encoder, z3/cvc5 back ends), stateless path exploration with pre-emption bounded scheduling; counterexamples replayed natively"}],
    "checks": [], "not_applicable": [],
    "notes": "Every check re-loads /repo's working tree, rebuilds SSA and re-encodes. Exit 0 = held within the stated bounds; 1 + VIOLATION line = counterexample (natively replayed where the harness is sequential); 2 + INCONCLUSIVE line = the engine could not decide (unmodelled call, solver unknown, budget) and is never reported as a pass."
}
for i in ids:
    if i in checks and i in meta.get('claimed', {}):
        mm = meta['claimed'][i]
        m['checks'].append({
            "property_id": i,
            "quick_cmd": "/verif/bin/gjv check %s --tier quick" % i,
            "thorough_cmd": "/verif/bin/gjv check %s --tier thorough" % i,
            "evidence_file": "/verif/evidence/%s.json" % i,
            "replay_cmd_template": "/verif/bin/gjv replay {path}",
            "engine": "gjv",
            "level_claimed": {"category": checks[i].get('level', 'model_checking'), "text": mm['text'], "design_ref": mm.get('design_ref', 'DESIGN.md section 6 ' + i)},
            "level_note": mm['note'],
            "technique": mm.get('technique', "bounded symbolic execution of the real Go SSA (own go/ssa -> SMT-LIB encoder), z3 deciding every symbolic branch and assertion per path; counterexamples replayed natively"),
        })
    else:
        m['not_applicable'].append({"property_id": i, "reason": meta.get('not_applicable', {}).get(i, "check not built yet (engine under construction); see DESIGN.md section 9")})
json.dump(m, open(V + '/MANIFEST.json', 'w'), indent=1)
print("claimed:", [c['property_id'] for c in m['checks']])
