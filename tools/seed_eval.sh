#!/bin/bash
# usage: seed_eval.sh <tag> <property> <demo-dir> <check-id>...
# Confirms a seeded change in a scratch worktree (builds, suite passes, demo fails with / passes without),
# then runs the given checks (quick tier) against that scratch checkout and files everything under /verif/seeded/<tag>/.
# /repo itself is never modified. SNAP=<dir> uses a snapshot (harness/, checks.json, kernels/, bin/gjv) instead of /verif,
# so that the machinery can be edited while an evaluation of the state "as the change arrived" is running.
set -u
export GOFLAGS=-mod=mod GOPROXY=off GOSUMDB=off GOTOOLCHAIN=local
tag=$1; prop=$2; demo=$3; shift 3
out=/verif/seeded/$tag; mkdir -p $out
cp $demo/patch.diff $out/patch.diff; cp $demo/demo_test.go $out/demo_test.go; cp $demo/NOTES.md $out/NOTES.md 2>/dev/null
wt=/tmp/ev-$tag
git -C /repo worktree remove --force $wt 2>/dev/null
git -C /repo worktree add -q --detach $wt HEAD || exit 3
cd $wt
applies=ok; git apply $out/patch.diff || applies=FAILED
build=ok; go build ./... 2>/dev/null || build=FAILED
suite=$(go test -vet=off -count=1 ./... 2>&1 | grep -c "^ok")
suitefail=$(go test -vet=off -count=1 ./... 2>&1 | grep -c "^FAIL\|^--- FAIL")
sub=.
grep -q "^package auth" $out/demo_test.go && sub=./auth
grep -q "^package httpio" $out/demo_test.go && sub=./httpio
cp $out/demo_test.go $sub/zz_demo_test.go
with=$(go test -vet=off -count=1 -run '^TestDemo$' $sub 2>&1 | grep -c "^--- FAIL\|^FAIL\|panic:")
git apply -R $out/patch.diff
without=$(go test -vet=off -count=1 -run '^TestDemo$' $sub 2>&1 | grep -c "^ok")
rm -f $sub/zz_demo_test.go
git apply $out/patch.diff
echo "[$tag] applies=$applies build=$build suite_ok_pkgs=$suite suite_failures=$suitefail demo_fails_with_change=$with demo_passes_without=$without"
# run the checks against the scratch checkout with the change (never touches /repo)
tmp=$(mktemp -d /var/tmp/gjv-alt-XXXX)
cp -r ${SNAP:-/verif}/harness $tmp/harness
sed -i "s|=> /repo|=> $wt|" $tmp/harness/go.mod
mkdir -p $tmp/verif/evidence
cp ${SNAP:-/verif}/checks.json /verif/known_findings.json $tmp/verif/
cp -r ${SNAP:-/verif}/kernels $tmp/verif/
res=""
for c in "$@"; do
  log=$out/check-$c.log
  VERIF_REPO=$wt VERIF_HARNESS=$tmp/harness VERIF_DIR=$tmp/verif ${SNAP:-/verif}/bin/gjv check $c --tier quick > $log 2>&1; rc=$?
  sed -i "s|$tmp/verif|/verif|g; s|$wt|/repo|g" $log
  nv=$(grep -c "^VIOLATION" $log)
  ni=$(grep -c "^INCONCLUSIVE" $log)
  first=$(grep -A1 "^VIOLATION" $log | sed -n 2p | cut -c1-200)
  echo "[$tag] check $c: exit=$rc violations=$nv inconclusive=$ni :: $first"
  res="$res{\"check\":\"$c\",\"exit\":$rc,\"violation_classes\":$nv,\"inconclusive\":$ni},"
done
rm -rf $tmp
cd /; git -C /repo worktree remove --force $wt
cat > $out/meta.json <<EOM
{"tag":"$tag","property":"$prop","applies":"$applies","build":"$build","suite_ok_packages":$suite,"suite_failures":$suitefail,
 "demo_fails_with_change":$with,"demo_passes_without_change":$without,
 "ran":"tools/seed_eval.sh $tag $prop $demo $*","checks":[${res%,}]}
EOM
