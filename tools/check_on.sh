#!/bin/bash
# usage: check_on.sh <repo-dir> <tier> <check-id>...   — runs checks against another checkout of go-jsonrpc
# (a scratch copy of the harness module is pointed at it; /repo and /verif/evidence are left alone)
repo=$1; tier=$2; shift 2
tmp=$(mktemp -d /var/tmp/gjv-alt-XXXX)
cp -r /verif/harness $tmp/harness
sed -i "s|=> /repo|=> $repo|" $tmp/harness/go.mod
mkdir -p $tmp/verif/evidence
cp /verif/checks.json /verif/known_findings.json $tmp/verif/
cp -r /verif/kernels $tmp/verif/
for c in "$@"; do
  VERIF_REPO=$repo VERIF_HARNESS=$tmp/harness VERIF_DIR=$tmp/verif /verif/bin/gjv check $c --tier $tier 2>&1 | grep -v "^\[" | cut -c1-300 | tail -3
done
rm -rf $tmp
