#!/bin/bash
# usage: probe_on.sh <patch.diff> <check-id> [extra gjv check args…]
# Applies a patch to a scratch checkout of /repo and runs one check (current /verif machinery) against it.
export GOFLAGS=-mod=mod GOPROXY=off GOSUMDB=off GOTOOLCHAIN=local
patch=$(readlink -f $1); c=$2; shift 2
wt=$(mktemp -d /tmp/probe-XXXX); rmdir $wt
git -C /repo worktree add -q --detach $wt HEAD || exit 3
( cd $wt && git apply $patch ) || { echo "patch does not apply"; git -C /repo worktree remove --force $wt; exit 3; }
tmp=$(mktemp -d /var/tmp/gjv-alt-XXXX)
cp -r /verif/harness $tmp/harness
sed -i "s|=> /repo|=> $wt|" $tmp/harness/go.mod
mkdir -p $tmp/verif/evidence
cp /verif/checks.json /verif/known_findings.json $tmp/verif/
cp -r /verif/kernels $tmp/verif/
VERIF_REPO=$wt VERIF_HARNESS=$tmp/harness VERIF_DIR=$tmp/verif ${GJV:-/verif/bin/gjv} check $c --tier quick "$@" 2>&1 | sed "s|$tmp/verif|/verif|g; s|$wt|/repo|g" | cut -c1-400
rc=${PIPESTATUS[0]}
rm -rf $tmp
git -C /repo worktree remove --force $wt
echo "exit=$rc"
