// Package c10: no peer input can crash or wedge the process; oversize bodies are refused.
package c10

import (
	"bytes"
	"context"
	"encoding/json"

	jsonrpc "github.com/filecoin-project/go-jsonrpc"

	"gjvharness/verif"
)

type H struct{ ran int }

func (h *H) Inc(a int) int { h.ran++; return a + 1 }

type reply struct {
	Result *int64 `json:"result"`
	Error  *struct {
		Code    int    `json:"code"`
		Message string `json:"message"`
	} `json:"error"`
}

// HarnessBodySize: body length L and limit M are symbolic; L > M => error reply
// and no handler run; L <= M => the (valid) request is not rejected for size.
func HarnessBodySize() {
	h := &H{}
	M := verif.Int("M")
	verif.Assume(M >= 0)
	srv := jsonrpc.NewServer(jsonrpc.WithMaxRequestSize(M))
	srv.Register("H", h)
	req := []byte(`{"jsonrpc":"2.0","id":1,"method":"H.Inc","params":[41]}`)
	pad := verif.Int("pad")
	verif.Assume(pad >= 0 && pad <= int64(verif.Bound("maxpad", 1<<20)))
	L := int64(len(req)) + pad
	var out bytes.Buffer
	srv.HandleRequest(context.Background(), verif.PaddedReader(req, pad), &out)
	var r reply
	ok := json.Unmarshal(out.Bytes(), &r) == nil
	verif.Assert(ok, "reply-is-json")
	if L > M {
		verif.Assert(h.ran == 0, "oversize-runs-no-handler")
		verif.Assert(r.Error != nil, "oversize-rejected")
	} else {
		verif.Assert(h.ran == 1, "within-limit-handler-runs")
		verif.Assert(r.Error == nil && r.Result != nil && *r.Result == 42, "within-limit-answered")
	}
	verif.Reach("size-done")
}
