// Package c10: no peer input can crash or wedge the process; oversize bodies are refused.
package c10

import (
	"bytes"
	"context"
	"encoding/json"
	"sync"

	jsonrpc "github.com/filecoin-project/go-jsonrpc"

	"gjvharness/verif"
)

type H struct {
	ran  int
	mu   sync.Mutex
	tags map[int]int
}

// Tag counts its executions per argument.
func (h *H) Tag(a int) int {
	h.mu.Lock()
	if h.tags == nil {
		h.tags = map[int]int{}
	}
	h.tags[a]++
	h.mu.Unlock()
	return a + 1
}

func (h *H) Inc(a int) int { h.ran++; return a + 1 }

type reply struct {
	Result *int64 `json:"result"`
	Error  *struct {
		Code    int    `json:"code"`
		Message string `json:"message"`
	} `json:"error"`
}

// HarnessBodySize: body length L and limit M are symbolic; L > M => error reply
// and no handler run; L <= M => the (valid) request is not rejected for size.
func HarnessBodySize() {
	h := &H{}
	M := verif.Int("M")
	verif.Assume(M >= 0)
	srv := jsonrpc.NewServer(jsonrpc.WithMaxRequestSize(M))
	srv.Register("H", h)
	req := []byte(`{"jsonrpc":"2.0","id":1,"method":"H.Inc","params":[41]}`)
	pad := verif.Int("pad")
	verif.Assume(pad >= 0 && pad <= int64(verif.Bound("maxpad", 1<<20)))
	L := int64(len(req)) + pad
	var out bytes.Buffer
	srv.HandleRequest(context.Background(), verif.PaddedReader(req, pad), &out)
	var r reply
	ok := json.Unmarshal(out.Bytes(), &r) == nil
	verif.Assert(ok, "reply-is-json")
	if L > M {
		verif.Assert(h.ran == 0, "oversize-runs-no-handler")
		verif.Assert(r.Error != nil, "oversize-rejected")
	} else {
		verif.Assert(h.ran == 1, "within-limit-handler-runs")
		verif.Assert(r.Error == nil && r.Result != nil && *r.Result == 42, "within-limit-answered")
	}
	verif.Reach("size-done")
}

// ---- hostile frames over WebSocket ----

var hostileMethods = []string{"xrpc.cancel", "xrpc.ch.val", "xrpc.ch.close", ""}
var paramShapes = []string{"absent", "null", "[]", "[x]", "[x,y]", "{}"}
var xKinds = []string{"num", "str", "bool", "null", "arr", "obj", "neg", "frac", "huge"}

func xValue(k int) interface{} {
	switch k {
	case 0:
		return verif.Int("x")
	case 1:
		return verif.String("xs", 2)
	case 2:
		return true
	case 3:
		return nil
	case 4:
		return []interface{}{1}
	case 5:
		return map[string]interface{}{"a": 1}
	case 6:
		return -1
	case 7:
		return 1.5
	}
	return 1e300
}

// hostileFrame builds one frame of the grammar and tags the path with its shape.
func hostileFrame() []byte {
	kind := verif.Choice("kind", 4) // 0 builtin/response object, 1 non-JSON, 2 empty, 3 call with odd id
	switch kind {
	case 1:
		verif.Class("frame=non-json")
		return []byte("{nonsense")
	case 2:
		verif.Class("frame=empty")
		return []byte{}
	case 3:
		verif.Class("frame=call-odd-id")
		ids := []interface{}{true, []interface{}{1}, map[string]interface{}{"a": 1}, 1.5, -7, "s"}
		b, _ := json.Marshal(map[string]interface{}{"jsonrpc": "2.0", "id": ids[verif.Choice("oddid", len(ids))], "method": "H.Inc", "params": []interface{}{1}})
		return b
	}
	mi := verif.Choice("method", len(hostileMethods))
	ps := verif.Choice("params", len(paramShapes))
	m := map[string]interface{}{"jsonrpc": "2.0"}
	if hostileMethods[mi] != "" {
		m["method"] = hostileMethods[mi]
	} else {
		// a response to a request never made, id of any type
		ids := []interface{}{12345, "zz", nil, true, 1.5}
		m["id"] = ids[verif.Choice("respid", len(ids))]
		if verif.Bool("resp_is_error") {
			m["error"] = map[string]interface{}{"code": 1, "message": "x"}
		} else {
			m["result"] = 1
		}
	}
	tag := "method=" + hostileMethods[mi] + ",params=" + paramShapes[ps]
	switch ps {
	case 1:
		m["params"] = nil
	case 2:
		m["params"] = []interface{}{}
	case 3:
		k := verif.Choice("xkind", len(xKinds))
		tag += ",x=" + xKinds[k]
		m["params"] = []interface{}{xValue(k)}
	case 4:
		k := verif.Choice("xkind", len(xKinds))
		tag += ",x=" + xKinds[k]
		m["params"] = []interface{}{xValue(k), 2}
	case 5:
		m["params"] = map[string]interface{}{"a": 1}
	}
	if verif.Bool("with_id") && hostileMethods[mi] != "" {
		m["id"] = 5
		tag += ",id"
	}
	verif.Class(tag)
	b, _ := json.Marshal(m)
	return b
}

type wsReply struct {
	ID     interface{} `json:"id"`
	Result *int64      `json:"result"`
	Error  *struct {
		Code int `json:"code"`
	} `json:"error"`
	Method string `json:"method"`
}

func probe(pc *verif.PeerConn, id int64, x int64) bool {
	b, _ := json.Marshal(map[string]interface{}{"jsonrpc": "2.0", "id": id, "method": "H.Inc", "params": []interface{}{x}})
	if !pc.Send(b) {
		return false
	}
	for i := 0; i < 4; i++ {
		rb, ok := pc.Recv()
		if !ok {
			return false
		}
		var r wsReply
		if json.Unmarshal(rb, &r) != nil {
			continue
		}
		if f, ok := r.ID.(float64); ok && f == float64(id) {
			return r.Error == nil && r.Result != nil && *r.Result == x+1
		}
	}
	return false
}

// HarnessHostileServer: S hostile frames sent to a server over a raw WS
// connection; afterwards a valid call on the same and on a fresh connection is answered.
func HarnessHostileServer() {
	h := &H{}
	srv := jsonrpc.NewServer()
	srv.Register("H", h)
	pc := verif.DialRaw(srv, nil)
	n := verif.Bound("S", 1)
	for i := 0; i < n; i++ {
		pc.Send(hostileFrame())
	}
	verif.Assert(probe(pc, 99, 41), "probe-on-same-connection-answered")
	pc2 := verif.DialRaw(srv, nil)
	verif.Assert(probe(pc2, 100, 1), "probe-on-other-connection-answered")
	verif.Assert(!verif.Crashed(), "process-survives")
	pc.CloseGraceful()
	pc2.CloseGraceful()
	verif.Quiesce()
	verif.Reach("hostile-server-done")
}

// HarnessHostileThenPipelined: after a hostile frame, and one ordinary exchange,
// two valid requests arrive back to back (so that both can be waiting in the
// server's queue at once). Each is executed exactly once and answered with its
// own result: a bad frame must not leave anything behind that later traffic trips over.
func HarnessHostileThenPipelined() {
	h := &H{}
	srv := jsonrpc.NewServer()
	srv.Register("H", h)
	pc := verif.DialRaw(srv, nil)
	pc.Send(hostileFrame())
	verif.Assert(probe(pc, 99, 41), "probe-on-same-connection-answered")
	x1, x2 := int64(7001), int64(7002)
	b1, _ := json.Marshal(map[string]interface{}{"jsonrpc": "2.0", "id": 1001, "method": "H.Tag", "params": []interface{}{x1}})
	b2, _ := json.Marshal(map[string]interface{}{"jsonrpc": "2.0", "id": 1002, "method": "H.Tag", "params": []interface{}{x2}})
	pc.Send(b1)
	pc.Send(b2)
	answers := map[float64]int{}
	for i := 0; i < 2; i++ {
		rb, ok := pc.Recv()
		verif.Assert(ok, "connection-stays-up")
		if !ok {
			break
		}
		var r wsReply
		verif.Assert(json.Unmarshal(rb, &r) == nil, "reply-is-json")
		id, _ := r.ID.(float64)
		answers[id]++
		switch id {
		case 1001:
			verif.Assert(r.Error == nil && r.Result != nil && *r.Result == x1+1, "first-pipelined-request-own-result")
		case 1002:
			verif.Assert(r.Error == nil && r.Result != nil && *r.Result == x2+1, "second-pipelined-request-own-result")
		default:
			verif.Assert(false, "answer-for-a-request-that-was-made")
		}
	}
	verif.Quiesce()
	verif.Assert(answers[1001] == 1 && answers[1002] == 1, "each-pipelined-request-answered-exactly-once")
	h.mu.Lock()
	verif.Assert(h.tags[7001] == 1 && h.tags[7002] == 1, "each-request-executed-exactly-once")
	h.mu.Unlock()
	verif.Assert(!verif.Crashed(), "process-survives")
	pc.CloseGraceful()
	verif.Quiesce()
	verif.Reach("hostile-then-pipelined-done")
}

type C struct {
	Inc func(ctx context.Context, a int) (int, error)
	Sub func(ctx context.Context) (<-chan int64, error)
}

// HarnessHostileClient: a fake server sends hostile frames to a client that has a
// call outstanding; the call still gets its genuine answer and later calls work.
func HarnessHostileClient() {
	l := verif.ListenWS()
	frame := hostileFrame()
	go func() {
		verif.Daemon()
		pc := l.Accept()
		first := true
		for {
			b, ok := pc.Recv()
			if !ok {
				return
			}
			var rq struct {
				ID     interface{}       `json:"id"`
				Params []json.RawMessage `json:"params"`
			}
			if json.Unmarshal(b, &rq) != nil || rq.ID == nil {
				continue
			}
			if first {
				first = false
				pc.Send(frame)
			}
			var a int64
			json.Unmarshal(rq.Params[0], &a)
			rb, _ := json.Marshal(map[string]interface{}{"jsonrpc": "2.0", "id": rq.ID, "result": a + 1})
			pc.Send(rb)
		}
	}()
	var c C
	closer, err := jsonrpc.NewMergeClient(context.Background(), l.URL(), "H", []interface{}{&c}, nil)
	verif.Assert(err == nil, "client-created")
	v, err := c.Inc(context.Background(), 41)
	verif.Assert(err == nil && v == 42, "call-during-hostile-frame-answered")
	v2, err2 := c.Inc(context.Background(), 1)
	verif.Assert(err2 == nil && v2 == 2, "later-call-answered")
	verif.Assert(!verif.Crashed(), "process-survives")
	closer()
	verif.Quiesce()
	verif.Reach("hostile-client-done")
}

// HarnessHostileClientLiveChannel: as HarnessHostileClient, but the client holds a
// live subscription (channel id 7) when the hostile frame arrives, so the built-in
// channel methods get past their "unknown channel" checks. Frames that are not a
// well-formed value/close for that channel must neither crash the client nor
// disturb the stream.
func HarnessHostileClientLiveChannel() {
	l := verif.ListenWS()
	// hostile frame aimed at the live channel: method x params shape with the live id first
	method := []string{"xrpc.ch.val", "xrpc.ch.close"}[verif.Choice("method", 2)]
	shape := verif.Choice("shape", 5)
	var params interface{}
	wellFormedValue, wellFormedClose := false, false
	switch shape {
	case 0:
		params = []interface{}{7}
		wellFormedClose = method == "xrpc.ch.close"
	case 1:
		params = []interface{}{7, xValue(verif.Choice("xkind", len(xKinds)))}
	case 2:
		params = []interface{}{7, 5, 6}
		wellFormedValue = method == "xrpc.ch.val"
		wellFormedClose = method == "xrpc.ch.close"
	case 3:
		params = []interface{}{7.5}
	case 4:
		params = []interface{}{"7"}
	}
	if shape == 1 {
		wellFormedClose = method == "xrpc.ch.close"
	}
	verif.Class("live-channel,method=" + method + ",shape=" + string(rune('0'+shape)))
	frame, _ := json.Marshal(map[string]interface{}{"jsonrpc": "2.0", "method": method, "params": params})
	go func() {
		verif.Daemon()
		pc := l.Accept()
		for {
			b, ok := pc.Recv()
			if !ok {
				return
			}
			var rq struct {
				ID     interface{}       `json:"id"`
				Method string            `json:"method"`
				Params []json.RawMessage `json:"params"`
			}
			if json.Unmarshal(b, &rq) != nil || rq.ID == nil {
				continue
			}
			if rq.Method == "H.Sub" {
				rb, _ := json.Marshal(map[string]interface{}{"jsonrpc": "2.0", "id": rq.ID, "result": 7})
				pc.Send(rb)
				pc.Send([]byte(`{"jsonrpc":"2.0","method":"xrpc.ch.val","params":[7,11]}`))
				pc.Send(frame)
				pc.Send([]byte(`{"jsonrpc":"2.0","method":"xrpc.ch.val","params":[7,12]}`))
				pc.Send([]byte(`{"jsonrpc":"2.0","method":"xrpc.ch.close","params":[7]}`))
				continue
			}
			var a int64
			json.Unmarshal(rq.Params[0], &a)
			rb, _ := json.Marshal(map[string]interface{}{"jsonrpc": "2.0", "id": rq.ID, "result": a + 1})
			pc.Send(rb)
		}
	}()
	var c C
	closer, err := jsonrpc.NewMergeClient(context.Background(), l.URL(), "H", []interface{}{&c}, nil)
	verif.Assert(err == nil, "client-created")
	ch, serr := c.Sub(context.Background())
	verif.Assert(serr == nil && ch != nil, "subscription-established")
	var got []int64
	for v := range ch {
		got = append(got, v)
	}
	verif.Assert(!verif.Crashed(), "process-survives")
	if !wellFormedValue && !wellFormedClose {
		if shape == 1 && method == "xrpc.ch.val" {
			// [7, x]: a value frame whose value may or may not decode into the element type
			verif.Assert(len(got) >= 2 && got[0] == 11 && got[len(got)-1] == 12, "stream-survives-hostile-value-frame")
		} else {
			verif.Assert(len(got) == 2 && got[0] == 11 && got[1] == 12, "stream-undisturbed-by-malformed-builtin-frame")
		}
	}
	v, cerr := c.Inc(context.Background(), 1)
	verif.Assert(cerr == nil && v == 2, "later-call-answered")
	closer()
	verif.Quiesce()
	verif.Reach("hostile-client-live-channel-done")
}
