package c10

import (
	"testing"

	"gjvharness/verif"
)

func TestReplay(t *testing.T) {
	verif.ReplayMain(map[string]func(){
		"HarnessBodySize":                 HarnessBodySize,
		"HarnessHostileClient":            HarnessHostileClient,
		"HarnessHostileClientLiveChannel": HarnessHostileClientLiveChannel,
		"HarnessHostileServer":            HarnessHostileServer,
		"HarnessHostileThenPipelined":     HarnessHostileThenPipelined,
	})
}
