// Package c17: keep-alive (the untimed part and the duration arithmetic).
package c17

import (
	"context"
	"encoding/json"
	"time"

	jsonrpc "github.com/filecoin-project/go-jsonrpc"

	"gjvharness/verif"
)

type C struct {
	Echo func(ctx context.Context, tok int64) (int64, error)
}

type wireReq struct {
	ID     json.RawMessage   `json:"id"`
	Params []json.RawMessage `json:"params"`
}

func echoPeer(l *verif.Listener, silentFirst bool) {
	verif.Daemon()
	first := true
	for {
		pc := l.Accept()
		for {
			b, ok := pc.Recv() // also answers pings with pongs
			if !ok {
				break
			}
			if silentFirst && first {
				continue // reads (so pings are answered at protocol level? no: a silent peer below) but never replies
			}
			var r wireReq
			if json.Unmarshal(b, &r) != nil || r.ID == nil {
				continue
			}
			rb, _ := json.Marshal(map[string]interface{}{"jsonrpc": "2.0", "id": r.ID, "result": r.Params[0]})
			pc.Send(rb)
		}
		first = false
	}
}

// blackholePeer accepts and then never reads nor writes on the first connection.
func blackholePeer(l *verif.Listener) {
	verif.Daemon()
	l.Accept()
	// later connections are healthy
	for {
		pc := l.Accept()
		for {
			b, ok := pc.Recv()
			if !ok {
				break
			}
			var r wireReq
			if json.Unmarshal(b, &r) != nil || r.ID == nil {
				continue
			}
			rb, _ := json.Marshal(map[string]interface{}{"jsonrpc": "2.0", "id": r.ID, "result": r.Params[0]})
			pc.Send(rb)
		}
	}
}

func durations() (timeout, ping time.Duration) {
	t := verif.Int("timeout")
	p := verif.Int("ping")
	verif.Assume(t > 0 && p > 0 && p < t/2 && t < 1<<50)
	return time.Duration(t), time.Duration(p)
}

// HarnessRenewals: on a healthy link every armed timer uses exactly the configured
// timeout or ping interval and every read deadline is now+timeout, whatever the
// values; timer firings (pings, idle timer resets) do not fail calls.
func HarnessRenewals() {
	timeout, ping := durations()
	l := verif.ListenWS()
	go echoPeer(l, false)
	var c C
	closer, err := jsonrpc.NewMergeClient(context.Background(), l.URL(), "NS", []interface{}{&c}, nil,
		jsonrpc.WithTimeout(timeout), jsonrpc.WithPingInterval(ping))
	verif.Assert(err == nil, "client-created")
	tok := verif.Int("tok")
	v, cerr := c.Echo(context.Background(), tok)
	verif.Assert(cerr == nil && v == tok, "call-on-healthy-link")
	verif.Quiesce()
	v2, cerr2 := c.Echo(context.Background(), tok+1)
	verif.Assert(cerr2 == nil && v2 == tok+1, "later-call-on-healthy-link")
	for _, d := range verif.TimerDurations() {
		verif.Assert(d == int64(timeout) || d == int64(ping), "timers-use-configured-durations")
	}
	for _, d := range verif.ReadDeadlines() {
		verif.Assert(d == int64(timeout), "read-deadline-is-now-plus-timeout")
	}
	closer()
	verif.Quiesce()
	verif.Reach("renewals-done")
}

// HarnessPingsDisabled: with pings disabled the idle timer firing never closes the connection.
func HarnessPingsDisabled() {
	l := verif.ListenWS()
	go echoPeer(l, false)
	var c C
	closer, err := jsonrpc.NewMergeClient(context.Background(), l.URL(), "NS", []interface{}{&c}, nil,
		jsonrpc.WithTimeout(time.Second), jsonrpc.WithPingInterval(0))
	verif.Assert(err == nil, "client-created")
	verif.Quiesce() // idle: the timer may fire here (budget T)
	v, cerr := c.Echo(context.Background(), 7)
	verif.Assert(cerr == nil && v == 7, "idle-timer-does-not-drop-the-link-when-pings-are-off")
	verif.Assert(l.Dials() == 1, "no-redial-when-pings-are-off")
	// with pings off the read deadline is the only thing that can notice a silent peer: as long
	// as a timeout is configured the library never waits for a message without one
	verif.Assert(verif.ReadsWithoutDeadline() == 0, "never-waits-for-a-message-without-a-read-deadline")
	closer()
	verif.Quiesce()
	verif.Reach("pings-disabled-done")
}

// HarnessSilentPeer: the peer goes silent without closing. Once the idle timer
// fires the client closes the connection, the pending call fails with the
// connection error and a redial starts; afterwards calls work again.
func HarnessSilentPeer() {
	l := verif.ListenWS()
	go blackholePeer(l)
	var c C
	closer, err := jsonrpc.NewMergeClient(context.Background(), l.URL(), "NS", []interface{}{&c}, nil,
		jsonrpc.WithTimeout(time.Second), jsonrpc.WithPingInterval(100*time.Millisecond),
		jsonrpc.WithReconnectBackoff(time.Millisecond, 5*time.Millisecond))
	verif.Assert(err == nil, "client-created")
	ret := 0
	var cerr error
	go func() { _, cerr = c.Echo(context.Background(), 1); ret++ }()
	verif.Quiesce()
	if verif.TimersFired() == 0 && verif.Symbolic() {
		// no timer fired on this path: the call is legitimately still pending
		verif.Assert(ret == 0, "no-timeout-no-failure")
		closer()
		verif.Quiesce()
		verif.Reach("silent-no-timer")
		return
	}
	if ret == 1 {
		verif.Assert(cerr != nil, "pending-call-fails-when-peer-is-silent")
		verif.Assert(l.Dials() >= 2, "redial-started-after-timeout")
		v, e2 := c.Echo(context.Background(), 9)
		verif.Assert(e2 == nil && v == 9, "calls-work-after-redial")
		verif.Reach("silent-detected")
	}
	closer()
	verif.Quiesce()
	verif.Assert(ret == 1, "pending-call-returns-by-close-at-the-latest")
	verif.Reach("silent-done")
}

// HarnessPongsAfterReconnect: after a reconnect, ping/pong activity on the new
// connection still counts as activity (the read deadline is renewed after a pong).
func HarnessPongsAfterReconnect() {
	l := verif.ListenWS()
	go func() {
		verif.Daemon()
		pc := l.Accept()
		pc.Recv() // first request
		pc.Abort()
		for {
			pc = l.Accept()
			for {
				b, ok := pc.Recv()
				if !ok {
					break
				}
				var r wireReq
				if json.Unmarshal(b, &r) != nil || r.ID == nil {
					continue
				}
				rb, _ := json.Marshal(map[string]interface{}{"jsonrpc": "2.0", "id": r.ID, "result": r.Params[0]})
				pc.Send(rb)
			}
		}
	}()
	var c C
	closer, err := jsonrpc.NewMergeClient(context.Background(), l.URL(), "NS", []interface{}{&c}, nil,
		jsonrpc.WithTimeout(time.Second), jsonrpc.WithPingInterval(100*time.Millisecond),
		jsonrpc.WithReconnectBackoff(time.Millisecond, 5*time.Millisecond))
	verif.Assert(err == nil, "client-created")
	c.Echo(context.Background(), 1) // fails: the peer resets after reading it
	verif.Quiesce()                 // reconnected; ping timers may fire now (budget T)
	v, e2 := c.Echo(context.Background(), 2)
	verif.Assert(e2 == nil && v == 2, "call-after-reconnect")
	verif.Quiesce()
	verif.Assert(verif.PongsIgnored() == 0, "pong-activity-renews-the-read-deadline-after-reconnect")
	verif.Assert(verif.ReadsWithoutDeadline() == 0, "never-waits-for-a-message-without-a-read-deadline")
	closer()
	verif.Quiesce()
	verif.Reach("pongs-after-reconnect-done")
}

// HarnessNoRenewalWithoutActivity: towards a blackholed peer the read deadline is
// not pushed out by the client's own activity (new calls): only evidence that the
// peer is alive may renew it, otherwise a busy client never notices a silent peer.
func HarnessNoRenewalWithoutActivity() {
	l := verif.ListenWS()
	go blackholePeer(l)
	var c C
	closer, err := jsonrpc.NewMergeClient(context.Background(), l.URL(), "NS", []interface{}{&c}, nil,
		jsonrpc.WithTimeout(time.Second), jsonrpc.WithPingInterval(100*time.Millisecond))
	verif.Assert(err == nil, "client-created")
	verif.Quiesce()
	before := len(verif.ReadDeadlines())
	for i := 0; i < 3; i++ {
		go func() { c.Echo(context.Background(), 1) }()
	}
	verif.Quiesce()
	after := len(verif.ReadDeadlines())
	verif.Assert(after == before, "own-requests-do-not-renew-the-read-deadline")
	closer()
	verif.Quiesce()
	verif.Reach("no-renewal-done")
}

// HarnessBriefStall: a healthy peer that does not drain its socket for a while
// (back-pressure, far shorter than the timeout) and then carries on. Whatever
// keep-alive traffic happened before and during the stall, a call issued during
// it completes with its result once the peer reads again: keep-alive must not
// poison ordinary writes.
func HarnessBriefStall() {
	l := verif.ListenWS()
	resume := make(chan struct{})
	go func() {
		verif.Daemon()
		pc := l.Accept()
		<-resume
		for {
			b, ok := pc.Recv()
			if !ok {
				return
			}
			var r wireReq
			if json.Unmarshal(b, &r) != nil || r.ID == nil {
				continue
			}
			rb, _ := json.Marshal(map[string]interface{}{"jsonrpc": "2.0", "id": r.ID, "result": r.Params[0]})
			pc.Send(rb)
		}
	}()
	var c C
	closer, err := jsonrpc.NewMergeClient(context.Background(), l.URL(), "NS", []interface{}{&c}, nil,
		jsonrpc.WithTimeout(20*time.Second), jsonrpc.WithPingInterval(100*time.Millisecond), jsonrpc.WithNoReconnect())
	verif.Assert(err == nil, "client-created")
	verif.Quiesce() // keep-alive traffic may happen here
	ret := 0
	var v int64
	var cerr error
	go func() { v, cerr = c.Echo(context.Background(), 7); ret++ }()
	verif.Quiesce() // the request may be stuck behind unread frames
	close(resume)
	verif.Quiesce()
	verif.Assert(ret == 1, "call-issued-during-a-brief-stall-returns")
	verif.Assert(cerr == nil && v == 7, "call-issued-during-a-brief-stall-gets-its-result")
	// and the connection is as good as new afterwards
	ret2 := 0
	go func() { v, cerr = c.Echo(context.Background(), 8); ret2++ }()
	verif.Quiesce()
	verif.Assert(ret2 == 1 && cerr == nil && v == 8, "call-after-a-brief-stall-gets-its-result")
	closer()
	verif.Quiesce()
	verif.Reach("brief-stall-done")
}

type PH struct{}

func (PH) Note(a int64)       {}
func (PH) Echo(a int64) int64 { return a }

// HarnessPingsWhileBusy: a server with a ping interval keeps pinging whatever
// data frames it receives in the meantime — for a peer that only sends (a stream
// of notifications, calls whose handlers are still running) the server's pings
// are the only sign of life it gets. Every tick of the ping timer puts one ping
// on the wire.
func HarnessPingsWhileBusy() {
	srv := jsonrpc.NewServer(jsonrpc.WithServerPingInterval(100 * time.Millisecond))
	srv.Register("P", PH{})
	pc := verif.DialRaw(srv, nil)
	for i := 0; i < 2; i++ {
		pc.Send([]byte(`{"jsonrpc":"2.0","method":"P.Note","params":[1]}`))
		verif.Quiesce() // ping timer ticks may happen here (budget T)
	}
	fired := verif.TimersFired() // ticks so far; their pings are on the wire by now (quiescence)
	pc.Send([]byte(`{"jsonrpc":"2.0","id":9,"method":"P.Echo","params":[4]}`))
	_, ok := pc.Recv() // reading also processes the pings that arrived before the answer
	verif.Assert(ok, "connection-stays-up")
	verif.Assert(pc.Pings() >= fired, "every-ping-tick-puts-a-ping-on-the-wire")
	pc.CloseGraceful()
	verif.Quiesce()
	verif.Reach("pings-while-busy-done")
}
