package c17

import (
	"testing"

	"gjvharness/verif"
)

func TestReplay(t *testing.T) {
	verif.ReplayMain(map[string]func(){
		"HarnessBriefStall":               HarnessBriefStall,
		"HarnessNoRenewalWithoutActivity": HarnessNoRenewalWithoutActivity,
		"HarnessPingsDisabled":            HarnessPingsDisabled,
		"HarnessPingsWhileBusy":           HarnessPingsWhileBusy,
		"HarnessPongsAfterReconnect":      HarnessPongsAfterReconnect,
		"HarnessRenewals":                 HarnessRenewals,
		"HarnessSilentPeer":               HarnessSilentPeer,
	})
}
