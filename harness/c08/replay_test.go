package c08

import (
	"testing"

	"gjvharness/verif"
)

func TestReplay(t *testing.T) {
	verif.ReplayMain(map[string]func(){
		"HarnessForeignChannelIDs": HarnessForeignChannelIDs,
		"HarnessReusedChannelID":   HarnessReusedChannelID,
		"HarnessTermination":       HarnessTermination,
	})
}
