package c08

import (
	"testing"

	"gjvharness/verif"
)

func TestReplay(t *testing.T) {
	verif.ReplayMain(map[string]func(){
		"HarnessReusedChannelID": HarnessReusedChannelID,
		"HarnessTermination":     HarnessTermination,
	})
}
