// Package c08: every client channel terminates: closed once, nothing after close, prefix only.
package c08

import (
	"context"
	"encoding/json"
	"time"

	jsonrpc "github.com/filecoin-project/go-jsonrpc"

	"gjvharness/verif"
)

type C struct {
	Sub func(ctx context.Context) (<-chan int64, error)
}

type wireReq struct {
	ID     json.RawMessage `json:"id"`
	Method string          `json:"method"`
}

func chVal(id int, v int64) []byte {
	b, _ := json.Marshal(map[string]interface{}{"jsonrpc": "2.0", "method": "xrpc.ch.val", "params": []interface{}{id, v}})
	return b
}

func chClose(id int) []byte {
	b, _ := json.Marshal(map[string]interface{}{"jsonrpc": "2.0", "method": "xrpc.ch.close", "params": []interface{}{id}})
	return b
}

const (
	endServerClose = iota // the handler closed its channel
	endFaultClose         // graceful close frame
	endFaultAbort         // reset
	endFaultTrunc         // truncated frame then reset
	endSilence            // nothing: termination must come from the caller side
	nEnds
)

// streamPeer answers the subscription, sends the values, then ends the stream as scripted.
func streamPeer(l *verif.Listener, vals []int64, end int, extraAfterClose bool) {
	verif.Daemon()
	pc := l.Accept()
	for {
		b, ok := pc.Recv()
		if !ok {
			break
		}
		var r wireReq
		if json.Unmarshal(b, &r) != nil || r.Method != "NS.Sub" {
			continue
		}
		rb, _ := json.Marshal(map[string]interface{}{"jsonrpc": "2.0", "id": r.ID, "result": 7})
		pc.Send(rb)
		for _, v := range vals {
			pc.Send(chVal(7, v))
		}
		switch end {
		case endServerClose:
			pc.Send(chClose(7))
			if extraAfterClose {
				pc.Send(chVal(7, 424242)) // a buggy server: must not reach the caller
				pc.Send(chClose(7))
			}
		case endFaultClose:
			pc.CloseGraceful()
		case endFaultAbort:
			pc.Abort()
		case endFaultTrunc:
			pc.SendTruncated()
		}
		break
	}
	// serve reconnects (healthy, idle)
	for {
		pc = l.Accept()
		for {
			if _, ok := pc.Recv(); !ok {
				break
			}
		}
	}
}

// HarnessTermination: stream end cause x caller-side action (none / cancel /
// client close) at every instant; the channel is closed exactly once, nothing is
// delivered after it, and what was received is a prefix of what was sent.
func HarnessTermination() {
	k := verif.Choice("k", verif.Bound("K", 2)+1)
	vals := make([]int64, k)
	for i := range vals {
		vals[i] = verif.Int("v" + string(rune('0'+i)))
		verif.Assume(vals[i] != 424242)
	}
	end := verif.Choice("end", nEnds)
	action := verif.Choice("action", 3) // 0 none, 1 cancel ctx, 2 close client
	verif.Assume(!(end == endSilence && action == 0))
	extra := end == endServerClose && verif.Bool("extra_after_close")
	l := verif.ListenWS()
	go streamPeer(l, vals, end, extra)
	var c C
	closer, err := jsonrpc.NewMergeClient(context.Background(), l.URL(), "NS", []interface{}{&c}, nil,
		jsonrpc.WithReconnectBackoff(time.Millisecond, 5*time.Millisecond))
	verif.Assert(err == nil, "client-created")
	ctx, cancel := context.WithCancel(context.Background())
	ch, serr := c.Sub(ctx)
	if serr != nil {
		// the fault beat the subscription: the call failed, no channel was handed out
		verif.Assert(ch == nil, "failed-subscription-hands-out-no-channel")
		cancel()
		closer()
		verif.Quiesce()
		verif.Reach("termination-no-channel")
		return
	}
	var got []int64
	closedN := 0
	go func() {
		for v := range ch {
			got = append(got, v)
		}
		closedN++
	}()
	closed := false
	if action != 0 {
		go func() {
			verif.AtStep("act_at", verif.Bound("steps", 30))
			if action == 1 {
				cancel()
			} else {
				closed = true
				closer()
			}
		}()
	}
	verif.Quiesce()
	verif.Assert(!verif.Crashed(), "no-double-close-panic")
	verif.Assert(closedN == 1, "channel-closed-exactly-once")
	verif.Assert(len(got) <= len(vals), "nothing-invented")
	for i := 0; i < len(got) && i < len(vals); i++ {
		verif.Assert(got[i] == vals[i], "received-is-a-prefix")
	}
	if end == endServerClose && action == 0 {
		verif.Assert(len(got) == len(vals), "server-close-delivers-everything-first")
	}
	cancel()
	if !closed {
		closer()
	}
	verif.Quiesce()
	verif.Reach("termination-done")
}

// HarnessReusedChannelID: subscription A ends with a connection loss; after the
// reconnect subscription B is given the same channel id by the (new) server
// connection; A's context is cancelled late. B still receives its values and is
// closed by the server's close notification.
func HarnessReusedChannelID() {
	l := verif.ListenWS()
	aEstablished := make(chan struct{})
	go func() {
		verif.Daemon()
		for round := 0; ; round++ {
			pc := l.Accept()
			for {
				b, ok := pc.Recv()
				if !ok {
					break
				}
				var r wireReq
				if json.Unmarshal(b, &r) != nil || r.Method != "NS.Sub" {
					continue
				}
				rb, _ := json.Marshal(map[string]interface{}{"jsonrpc": "2.0", "id": r.ID, "result": 7})
				pc.Send(rb)
				if round == 0 {
					pc.Send(chVal(7, 1))
					<-aEstablished // (a reset must not destroy the unread response)
					pc.Abort()
					break
				}
				// second connection: wait for the harness to cancel A's context, then stream
				verif.Quiesce2()
				pc.Send(chVal(7, 21))
				pc.Send(chVal(7, 22))
				pc.Send(chClose(7))
			}
		}
	}()
	var c C
	closer, err := jsonrpc.NewMergeClient(context.Background(), l.URL(), "NS", []interface{}{&c}, nil,
		jsonrpc.WithReconnectBackoff(time.Millisecond, 5*time.Millisecond))
	verif.Assert(err == nil, "client-created")
	ctxA, cancelA := context.WithCancel(context.Background())
	chA, errA := c.Sub(ctxA)
	verif.Assert(errA == nil && chA != nil, "subscribe-a")
	close(aEstablished)
	closedA := 0
	go func() {
		for range chA {
		}
		closedA++
	}()
	verif.Quiesce() // connection lost, A closed, client reconnected
	verif.Assert(closedA == 1, "first-subscription-closed-by-connection-loss")
	chB, errB := c.Sub(context.Background())
	verif.Assert(errB == nil && chB != nil, "subscribe-b")
	var gotB []int64
	closedB := 0
	go func() {
		for v := range chB {
			gotB = append(gotB, v)
		}
		closedB++
	}()
	cancelA() // late cancel of the old subscription's context
	verif.Quiesce()
	verif.Release2()
	verif.Quiesce()
	verif.Assert(closedB == 1, "second-subscription-closed-by-its-close-notification")
	verif.Assert(len(gotB) == 2 && gotB[0] == 21 && gotB[1] == 22, "second-subscription-receives-its-values")
	closer()
	verif.Quiesce()
	verif.Reach("reused-channel-id-done")
}

func chValU(id uint64, v int64) []byte {
	b, _ := json.Marshal(map[string]interface{}{"jsonrpc": "2.0", "method": "xrpc.ch.val", "params": []interface{}{id, v}})
	return b
}

func chCloseU(id uint64) []byte {
	b, _ := json.Marshal(map[string]interface{}{"jsonrpc": "2.0", "method": "xrpc.ch.close", "params": []interface{}{id}})
	return b
}

// HarnessForeignChannelIDs: the channel id is whatever unsigned 64-bit number the
// peer announces (the bundled server counts from 1, other peers need not). Two
// subscriptions with arbitrary distinct ids stay separate: each receives exactly
// the values sent on its id, and closes when its own close notification arrives.
func HarnessForeignChannelIDs() {
	idA, idB := verif.Uint64("idA"), verif.Uint64("idB")
	verif.Assume(idA != idB && idA < 1<<63 && idB < 1<<63)
	l := verif.ListenWS()
	go func() {
		verif.Daemon()
		pc := l.Accept()
		n := 0
		for {
			b, ok := pc.Recv()
			if !ok {
				return
			}
			var r wireReq
			if json.Unmarshal(b, &r) != nil || r.Method != "NS.Sub" {
				continue
			}
			id := idA
			if n == 1 {
				id = idB
			}
			n++
			rb, _ := json.Marshal(map[string]interface{}{"jsonrpc": "2.0", "id": r.ID, "result": id})
			pc.Send(rb)
			if n == 2 {
				verif.Quiesce2()
				pc.Send(chValU(idB, 21))
				pc.Send(chValU(idA, 11))
				pc.Send(chCloseU(idA))
				pc.Send(chValU(idB, 22))
			}
		}
	}()
	var c C
	closer, err := jsonrpc.NewMergeClient(context.Background(), l.URL(), "NS", []interface{}{&c}, nil, jsonrpc.WithNoReconnect())
	verif.Assert(err == nil, "client-created")
	chA, errA := c.Sub(context.Background())
	verif.Assert(errA == nil && chA != nil, "subscribe-a")
	chB, errB := c.Sub(context.Background())
	verif.Assert(errB == nil && chB != nil, "subscribe-b")
	var gotA, gotB []int64
	closedA, closedB := 0, 0
	go func() {
		for v := range chA {
			gotA = append(gotA, v)
		}
		closedA++
	}()
	go func() {
		for v := range chB {
			gotB = append(gotB, v)
		}
		closedB++
	}()
	verif.Quiesce()
	verif.Release2()
	verif.Quiesce()
	verif.Assert(len(gotA) == 1 && gotA[0] == 11, "first-subscription-receives-exactly-its-values")
	verif.Assert(closedA == 1, "first-subscription-closed-by-its-close-notification")
	verif.Assert(len(gotB) == 2 && gotB[0] == 21 && gotB[1] == 22, "second-subscription-receives-exactly-its-values")
	verif.Assert(closedB == 0, "second-subscription-stays-open")
	closer()
	verif.Quiesce()
	verif.Assert(closedB == 1, "second-subscription-closed-by-client-close")
	verif.Reach("foreign-channel-ids-done")
}
