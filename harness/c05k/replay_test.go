//go:build verif

package c05k

import (
	"testing"

	"gjvharness/verif"
)

func TestReplay(t *testing.T) {
	verif.ReplayMain(map[string]func(){
		"HarnessBackoffExact": HarnessBackoffExact,
		"HarnessBackoffNeg":   HarnessBackoffNeg,
		"HarnessBackoffSym":   HarnessBackoffSym,
	})
}
