//go:build verif

// Package c05k: kernel harnesses for the back-off computation (needs the overlay kernels).
package c05k

import (
	"time"

	jsonrpc "github.com/filecoin-project/go-jsonrpc"

	"gjvharness/verif"
)

// HarnessBackoffExact: for every attempt in [0,K] (each exactly, math.Pow evaluated
// concretely), every 0 < min <= max with min <= 2^53 ns and every jitter r in [0,1):
// min <= next(attempt) <= max.
func HarnessBackoffExact() {
	min := verif.Int("min")
	max := verif.Int("max")
	verif.Assume(min > 0 && min <= max && min <= 1<<53)
	var attempt int
	if verif.Bound("sparse", 0) == 1 {
		// quick tier: attempts around every regime change (overflow of int64 at 62/63, +Inf near 1750)
		list := []int{0, 1, 2, 5, 20, 40, 61, 62, 63, 64, 70, 100, 1000, 2000}
		attempt = list[verif.Choice("attempt_i", len(list))]
	} else {
		attempt = verif.Choice("attempt", verif.Bound("K", 80)+1)
	}
	d := jsonrpc.VerifBackoffNext(time.Duration(min), time.Duration(max), attempt)
	verif.Assert(int64(d) >= min, "delay-at-least-min")
	verif.Assert(int64(d) <= max, "delay-at-most-max")
	verif.Reach("backoff-done")
}

// HarnessBackoffSym: attempt fully symbolic (>= 0), math.Pow axiomatised (>= 1 for base >= 1, exponent >= 0).
func HarnessBackoffSym() {
	min := verif.Int("min")
	max := verif.Int("max")
	verif.Assume(min > 0 && min <= max && min <= 1<<53)
	attempt := verif.Int("attempt")
	verif.Assume(attempt >= 0)
	d := jsonrpc.VerifBackoffNext(time.Duration(min), time.Duration(max), int(attempt))
	verif.Assert(int64(d) >= min, "delay-at-least-min")
	verif.Assert(int64(d) <= max, "delay-at-most-max")
	verif.Reach("backoff-done")
}

// HarnessBackoffNeg: negative attempts return min.
func HarnessBackoffNeg() {
	min := verif.Int("min")
	max := verif.Int("max")
	attempt := verif.Int("attempt")
	verif.Assume(attempt < 0)
	d := jsonrpc.VerifBackoffNext(time.Duration(min), time.Duration(max), int(attempt))
	verif.Assert(int64(d) == min, "negative-attempt-min")
	verif.Reach("backoff-neg-done")
}
