package verif

import (
	"context"
	"io"
	"net"
	"net/http"
	"net/http/httptest"
	"strings"
	"sync"
	"sync/atomic"
	"time"

	"github.com/gorilla/websocket"
)

// WSResponseWriter is the ResponseWriter handed to handlers for upgrade
// requests under the engine (natively the real net/http one is used).
type WSResponseWriter struct {
	Hdr    http.Header
	Status int
	ConnID int
}

func (w *WSResponseWriter) Header() http.Header         { return w.Hdr }
func (w *WSResponseWriter) Write(b []byte) (int, error) { return len(b), nil }
func (w *WSResponseWriter) WriteHeader(s int)           { w.Status = s }

// TimeoutBody is what a server sees of a request body whose client put a time limit on the whole
// exchange (http.Client.Timeout): once the limit has expired the body ends with
// io.ErrUnexpectedEOF. Only the engine constructs it (natively the real net/http does this).
type TimeoutBody struct {
	R       io.Reader
	Expired *bool
}

func (t *TimeoutBody) Read(p []byte) (int, error) {
	if *t.Expired {
		return 0, io.ErrUnexpectedEOF
	}
	return t.R.Read(p)
}

// Listener is a scripted WebSocket peer endpoint: clients created with its URL
// connect to PeerConns driven by the harness.
type Listener struct {
	srv      *httptest.Server
	mu       sync.Mutex
	pending  chan *PeerConn
	failNext int32
	closed   int32
	dials    int32
}

var upg = websocket.Upgrader{CheckOrigin: func(r *http.Request) bool { return true }}

func ListenWS() *Listener {
	l := &Listener{pending: make(chan *PeerConn, 64)}
	l.srv = httptest.NewServer(http.HandlerFunc(func(w http.ResponseWriter, r *http.Request) {
		atomic.AddInt32(&l.dials, 1)
		if atomic.LoadInt32(&l.closed) != 0 {
			http.Error(w, "closed", 503)
			return
		}
		if n := atomic.LoadInt32(&l.failNext); n > 0 {
			atomic.AddInt32(&l.failNext, -1)
			http.Error(w, "scripted failure", 503)
			return
		}
		c, err := upg.Upgrade(w, r, nil)
		if err != nil {
			return
		}
		l.pending <- newPeerConn(c, nil)
	}))
	return l
}

func (l *Listener) URL() string       { return "ws://" + strings.TrimPrefix(l.srv.URL, "http://") + "/rpc" }
func (l *Listener) FailNext(n int)    { atomic.StoreInt32(&l.failNext, int32(n)) }
func (l *Listener) Close()            { atomic.StoreInt32(&l.closed, 1) }
func (l *Listener) Open()             { atomic.StoreInt32(&l.closed, 0) }
func (l *Listener) Dials() int        { return int(atomic.LoadInt32(&l.dials)) }
func (l *Listener) Accept() *PeerConn { return <-l.pending }
func (l *Listener) TryAccept() *PeerConn {
	select {
	case p := <-l.pending:
		return p
	case <-time.After(quiesceDelay):
		return nil
	}
}

// ServeWS serves a real handler (e.g. *jsonrpc.RPCServer) under a ws:// URL.
func ServeWS(h http.Handler) (string, func()) {
	srv := httptest.NewServer(h)
	return "ws://" + strings.TrimPrefix(srv.URL, "http://") + "/rpc", srv.Close
}

// DialRaw connects a scripted raw client to a real server handler. ctx (may be nil)
// becomes the parent of the upgrade request's context.
func DialRaw(h http.Handler, ctx context.Context) *PeerConn {
	hh := h
	if ctx != nil {
		hh = http.HandlerFunc(func(w http.ResponseWriter, r *http.Request) {
			c, cancel := context.WithCancel(r.Context())
			defer cancel()
			go func() {
				select {
				case <-ctx.Done():
					cancel()
				case <-c.Done():
				}
			}()
			h.ServeHTTP(w, r.WithContext(c))
		})
	}
	srv := httptest.NewServer(hh)
	c, _, err := websocket.DefaultDialer.Dial("ws://"+strings.TrimPrefix(srv.URL, "http://")+"/rpc", nil)
	if err != nil {
		panic(err)
	}
	return newPeerConn(c, srv)
}

// newPeerConn counts incoming pings and answers them the way gorilla's default handler does.
func newPeerConn(c *websocket.Conn, srv *httptest.Server) *PeerConn {
	p := &PeerConn{c: c, srv: srv}
	c.SetPingHandler(func(data string) error {
		atomic.AddInt32(&p.pings, 1)
		p.wmu.Lock()
		defer p.wmu.Unlock()
		err := c.WriteControl(websocket.PongMessage, []byte(data), time.Now().Add(time.Second))
		if err == websocket.ErrCloseSent {
			return nil
		}
		if e, ok := err.(net.Error); ok && e.Timeout() {
			return nil
		}
		return err
	})
	return p
}

// PeerConn is the harness-driven end of a WebSocket connection.
type PeerConn struct {
	c     *websocket.Conn
	srv   *httptest.Server
	wmu   sync.Mutex
	sent  int32
	pings int32
}

func (p *PeerConn) Recv() ([]byte, bool) {
	for {
		t, b, err := p.c.ReadMessage()
		if err != nil {
			return nil, false
		}
		if t == websocket.TextMessage || t == websocket.BinaryMessage {
			return b, true
		}
	}
}

func (p *PeerConn) write(t int, b []byte) bool {
	p.wmu.Lock()
	defer p.wmu.Unlock()
	return p.c.WriteMessage(t, b) == nil
}

func (p *PeerConn) Send(b []byte) bool       { return p.write(websocket.TextMessage, b) }
func (p *PeerConn) SendBinary(b []byte) bool { return p.write(websocket.BinaryMessage, b) }
func (p *PeerConn) SendPing() bool           { return p.write(websocket.PingMessage, nil) }
func (p *PeerConn) SendPong() bool           { return p.write(websocket.PongMessage, nil) }

func (p *PeerConn) CloseGraceful() {
	p.write(websocket.CloseMessage, websocket.FormatCloseMessage(websocket.CloseNormalClosure, ""))
	p.c.Close()
}

func (p *PeerConn) Abort() {
	if tc, ok := p.c.UnderlyingConn().(*net.TCPConn); ok {
		tc.SetLinger(0)
	}
	p.c.UnderlyingConn().Close()
}

// SendTruncated writes the header of a 100-byte text frame plus a few payload bytes, then resets.
func (p *PeerConn) SendTruncated() {
	p.wmu.Lock()
	p.c.UnderlyingConn().Write([]byte{0x81, 100, '{', '"', 'j'})
	p.wmu.Unlock()
	time.Sleep(20 * time.Millisecond)
	p.Abort()
}

// SendPartial writes the beginning of a text message (header of a 100-byte frame and a few
// payload bytes) and then nothing more: the receiver stays inside the message until the
// connection goes away.
func (p *PeerConn) SendPartial() {
	p.wmu.Lock()
	if p.srv != nil { // this end dialled: client frames are masked (zero key)
		p.c.UnderlyingConn().Write([]byte{0x81, 0x80 | 100, 0, 0, 0, 0, '{', '"', 'j'})
	} else {
		p.c.UnderlyingConn().Write([]byte{0x81, 100, '{', '"', 'j'})
	}
	p.wmu.Unlock()
}

func (p *PeerConn) Sent() int { return int(atomic.LoadInt32(&p.sent)) }

// Pings is the number of WebSocket pings this end has received (and answered) so far.
func (p *PeerConn) Pings() int { return int(atomic.LoadInt32(&p.pings)) }

// AtStep parks the caller until a harness-chosen number of visible operations
// of other goroutines has happened (natively: a proportional short sleep).
func AtStep(name string, max int) {
	k := Choice(name, max+1)
	time.Sleep(time.Duration(k) * 200 * time.Microsecond)
}

// Yield lets other goroutines run (a scheduling point).
func Yield() { time.Sleep(200 * time.Microsecond) }

// MountHTTP serves h under a fresh base URL (used for side-channel uploads).
func MountHTTP(h http.Handler) string {
	srv := httptest.NewServer(h)
	return srv.URL
}

// Engine-only observations of the timer / deadline models (empty natively).
func TimerDurations() []int64 { return nil }
func ReadDeadlines() []int64  { return nil }
func TimersFired() int        { return 0 }

// ReadsWithoutDeadline: how often the library started waiting for a message on a connection
// on which no (non-zero) read deadline was in force (engine only; natively 0).
func ReadsWithoutDeadline() int { return 0 }

// RedialsWithoutBackoff: dials to an address that was dialled before with no time.Sleep by
// anybody since that previous dial (engine only; natively 0).
func RedialsWithoutBackoff() int { return 0 }

// Engine-only observations of the race / lock-discipline monitors (natively: run with -race instead).
func Races() int                { return 0 }
func RaceDesc() string          { return "" }
func UnlockedWrites() int       { return 0 }
func UnlockedWriteDesc() string { return "" }

// PongsIgnored (engine-only): connections on which a pong arrived without a read-deadline renewal afterwards.
func PongsIgnored() int { return 0 }

// TornMessages (engine-only): data messages cut short by a close frame sent while they were being written.
func TornMessages() int { return 0 }
