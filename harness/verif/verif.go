// Package verif is the harness API. Under the engine (gjv) every function
// here is intercepted and gives symbolic values / decisions; compiled
// natively the same functions read pinned values from the JSON file named by
// VERIF_PIN, so a counterexample can be replayed against the real build.
package verif

import (
	"encoding/json"
	"fmt"
	"os"
	"sync"
	"time"
)

type pinFile struct {
	Inputs map[string]interface{} `json:"inputs"`
	Bounds map[string]int         `json:"bounds"`
}

var (
	pinOnce  sync.Once
	pins     pinFile
	mu       sync.Mutex
	Failures []string
	Reached  = map[string]bool{}
	Notes    []string
)

func loadPins() {
	pinOnce.Do(func() {
		p := os.Getenv("VERIF_PIN")
		if p == "" {
			return
		}
		b, err := os.ReadFile(p)
		if err != nil {
			panic(err)
		}
		dec := json.NewDecoder(bytesReader(b))
		dec.UseNumber()
		if err := dec.Decode(&pins); err != nil {
			panic(err)
		}
	})
}

func num(name string) (json.Number, bool) {
	loadPins()
	v, ok := pins.Inputs[name]
	if !ok {
		return "", false
	}
	n, ok := v.(json.Number)
	return n, ok
}

// Symbolic reports whether the harness runs under the symbolic engine.
func Symbolic() bool { return false }

func Int(name string) int64 {
	if n, ok := num(name); ok {
		i, _ := n.Int64()
		return i
	}
	return 0
}

func Uint64(name string) uint64 {
	if n, ok := num(name); ok {
		var u uint64
		fmt.Sscan(string(n), &u)
		return u
	}
	return 0
}

func Byte(name string) byte { return byte(Uint64(name)) }

func Bool(name string) bool {
	loadPins()
	b, _ := pins.Inputs[name].(bool)
	return b
}

func Float64(name string) float64 {
	loadPins()
	switch v := pins.Inputs[name].(type) {
	case json.Number:
		f, _ := v.Float64()
		return f
	case string: // non-finite / exact bit patterns are pinned as hex bits
		var bits uint64
		fmt.Sscanf(v, "bits:%x", &bits)
		return float64frombits(bits)
	}
	return 0
}

// String is an arbitrary ASCII string of length <= maxLen.
func String(name string, maxLen int) string {
	loadPins()
	s, _ := pins.Inputs[name].(string)
	return s
}

// Bytes is an arbitrary byte string of length <= maxLen.
func Bytes(name string, maxLen int) []byte { return []byte(String(name, maxLen)) }

// Choice is an arbitrary value in [0,n).
func Choice(name string, n int) int { return int(Int(name)) }

// Bound returns an engine-supplied exploration bound (default def).
func Bound(name string, def int) int {
	loadPins()
	if v, ok := pins.Bounds[name]; ok {
		return v
	}
	return def
}

type assumeFailed struct{}

func Assume(c bool) {
	if !c {
		panic(assumeFailed{})
	}
}

func Assert(c bool, label string) {
	if !c {
		mu.Lock()
		Failures = append(Failures, label)
		mu.Unlock()
	}
}

func Reach(label string) { mu.Lock(); Reached[label] = true; mu.Unlock() }
func Class(tag string)   {}
func Note(s string)      { mu.Lock(); Notes = append(Notes, s); mu.Unlock() }

// Quiesce waits until no goroutine can make progress (natively: a grace period).
func Quiesce() { time.Sleep(quiesceDelay) }

var quiesceDelay = 300 * time.Millisecond

func Crashed() bool        { return false }
func LeftoverLib() int     { return nativeLeftover() }
func LeftoverDesc() string { return nativeLeftoverDesc() }
func Daemon()              {}

// Run executes a harness natively and reports assertion failures.
func Run(h func()) (failures []string, skipped bool) {
	defer func() {
		if p := recover(); p != nil {
			if _, ok := p.(assumeFailed); ok {
				skipped = true
				return
			}
			panic(p)
		}
	}()
	h()
	mu.Lock()
	defer mu.Unlock()
	return append([]string{}, Failures...), false
}

// ReplayMain is called from each harness package's TestReplay: it runs the
// harness named by VERIF_ENTRY once per pin file in VERIF_PIN_DIR, each in a
// subprocess-free fresh state, printing REPLAY-OK / REPLAY-FAIL / REPLAY-SKIP.
func ReplayMain(harnesses map[string]func()) {
	entry := os.Getenv("VERIF_ENTRY")
	h, ok := harnesses[entry]
	if !ok {
		fmt.Println("REPLAY-ERROR no such harness", entry)
		return
	}
	dir := os.Getenv("VERIF_PIN_DIR")
	ents, _ := os.ReadDir(dir)
	for _, e := range ents {
		if len(e.Name()) < 3 || e.Name()[:3] != "pin" {
			continue
		}
		b, err := os.ReadFile(dir + "/" + e.Name())
		if err != nil {
			continue
		}
		pins = pinFile{}
		dec := json.NewDecoder(bytesReader(b))
		dec.UseNumber()
		if err := dec.Decode(&pins); err != nil {
			fmt.Println("REPLAY-ERROR bad pin file", err)
			continue
		}
		pinOnce.Do(func() {})
		mu.Lock()
		Failures = nil
		Reached = map[string]bool{}
		mu.Unlock()
		fails, skipped := Run(h)
		switch {
		case skipped:
			fmt.Println("REPLAY-SKIP", e.Name())
		case len(fails) > 0:
			fmt.Println("REPLAY-FAIL", fails)
		default:
			fmt.Println("REPLAY-OK", e.Name())
		}
	}
}

// Quiesce2 / Release2: a simple gate for harness peers (a peer calls Quiesce2 to wait, the harness calls Release2).
var gate2 = make(chan struct{})
var gate2Once sync.Once

func Quiesce2() { <-gate2 }
func Release2() { gate2Once.Do(func() { close(gate2) }) }
