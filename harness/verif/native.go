package verif

import (
	"bytes"
	"io"
	"math"
)

func bytesReader(b []byte) io.Reader   { return bytes.NewReader(b) }
func float64frombits(b uint64) float64 { return math.Float64frombits(b) }
func nativeLeftover() int              { return 0 }

type padReader struct {
	head []byte
	pad  int64
}

func (p *padReader) Read(b []byte) (int, error) {
	if len(p.head) > 0 {
		n := copy(b, p.head)
		p.head = p.head[n:]
		return n, nil
	}
	if p.pad <= 0 {
		return 0, io.EOF
	}
	n := int64(len(b))
	if n > p.pad {
		n = p.pad
	}
	for i := int64(0); i < n; i++ {
		b[i] = ' '
	}
	p.pad -= n
	return int(n), nil
}

// PaddedReader yields head followed by pad spaces (without allocating them).
func PaddedReader(head []byte, pad int64) io.Reader {
	return &padReader{head: append([]byte{}, head...), pad: pad}
}
