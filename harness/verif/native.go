package verif

import (
	"bytes"
	"io"
	"math"
	"runtime"
	"sort"
	"strings"
	"time"
)

const libPrefix = "github.com/filecoin-project/go-jsonrpc"

// leftoverLib lists goroutines created by library code that are still alive.
func leftoverLib() []string {
	time.Sleep(quiesceDelay)
	buf := make([]byte, 1<<20)
	n := runtime.Stack(buf, true)
	var out []string
	for _, g := range strings.Split(string(buf[:n]), "\n\n") {
		lines := strings.Split(g, "\n")
		created := ""
		for _, l := range lines {
			if strings.HasPrefix(l, "created by ") {
				created = strings.TrimPrefix(l, "created by ")
			}
		}
		if !strings.HasPrefix(created, libPrefix+".") && !strings.HasPrefix(created, libPrefix+"/") {
			continue
		}
		top := ""
		if len(lines) > 1 {
			top = lines[1]
			if i := strings.IndexByte(top, '('); i > 0 {
				top = top[:i]
			}
		}
		if f := strings.Fields(created); len(f) > 0 {
			created = f[0]
		}
		out = append(out, created+"@"+top)
	}
	sort.Strings(out)
	return out
}

func nativeLeftover() int        { return len(leftoverLib()) }
func nativeLeftoverDesc() string { return strings.Join(leftoverLib(), ";") }

func bytesReader(b []byte) io.Reader   { return bytes.NewReader(b) }
func float64frombits(b uint64) float64 { return math.Float64frombits(b) }

type padReader struct {
	head []byte
	pad  int64
}

func (p *padReader) Read(b []byte) (int, error) {
	if len(p.head) > 0 {
		n := copy(b, p.head)
		p.head = p.head[n:]
		return n, nil
	}
	if p.pad <= 0 {
		return 0, io.EOF
	}
	n := int64(len(b))
	if n > p.pad {
		n = p.pad
	}
	for i := int64(0); i < n; i++ {
		b[i] = ' '
	}
	p.pad -= n
	return int(n), nil
}

// PaddedReader yields head followed by pad spaces (without allocating them).
func PaddedReader(head []byte, pad int64) io.Reader {
	return &padReader{head: append([]byte{}, head...), pad: pad}
}
