package verif

import (
	"bytes"
	"io"
	"math"
)

func bytesReader(b []byte) io.Reader   { return bytes.NewReader(b) }
func float64frombits(b uint64) float64 { return math.Float64frombits(b) }
func nativeLeftover() int              { return 0 }
