package c01

import (
	"testing"

	"gjvharness/verif"
)

func TestReplay(t *testing.T) {
	verif.ReplayMain(map[string]func(){
		"HarnessOverlappingCalls": HarnessOverlappingCalls,
		"HarnessSequence":         HarnessSequence,
		"HarnessShapes":           HarnessShapes,
	})
}
