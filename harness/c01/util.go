package c01

import "encoding/json"

func jsonMarshal(v interface{}) ([]byte, error) { return json.Marshal(v) }
