// Package c01: remote calls are transparent (args in, results out) on every transport.
package c01

import (
	"context"
	"encoding/json"
	"errors"
	"io"
	"math"
	"reflect"
	"sync"

	jsonrpc "github.com/filecoin-project/go-jsonrpc"

	"gjvharness/hx"
	"gjvharness/verif"
)

type Inner struct {
	A int64
	S string `json:"s,omitempty"`
}

type Base struct{ ID uint64 }

type Outer struct {
	Base
	In   Inner
	P    *Inner
	L    []int64
	Flag bool `json:"flag"`
}

// H is the server-side handler: every method records what it received and
// returns what the harness prepared.
// Level and Opt have their own JSON codecs, for which JSON null is not the encoding of the zero value.
type Level int

var levelNames = []string{"low", "mid", "high"}

func (l Level) MarshalJSON() ([]byte, error) {
	if l < 0 || int(l) >= len(levelNames) {
		return nil, errors.New("bad level")
	}
	return json.Marshal(levelNames[l])
}

func (l *Level) UnmarshalJSON(b []byte) error {
	var s string
	if err := json.Unmarshal(b, &s); err != nil {
		return err
	}
	for i, n := range levelNames {
		if n == s {
			*l = Level(i)
			return nil
		}
	}
	return errors.New("unknown level")
}

// Opt records that it went through its decoder.
type Opt struct {
	Decoded bool
	N       int64
}

func (o Opt) MarshalJSON() ([]byte, error) { return json.Marshal(map[string]int64{"n": o.N}) }
func (o *Opt) UnmarshalJSON(b []byte) error {
	var m map[string]int64
	if err := json.Unmarshal(b, &m); err != nil {
		return err
	}
	if m == nil {
		return nil // null: nothing to decode
	}
	o.Decoded, o.N = true, m["n"]
	return nil
}

type H struct {
	ran  string
	fail bool

	gotLvl Level
	retLvl Level
	gotOpt Opt
	retOpt Opt

	gotI  int64
	gotU  uint64
	gotS  string
	gotB  bool
	gotF  float64
	gotP  *Inner
	gotL  []int64
	gotL2 []int64
	gotO  Outer
	gotBs []byte
	gotM  map[string]int64
	gotR  string

	retI  int64
	retU  uint64
	retS  string
	retF  float64
	retP  *Inner
	retL  []int64
	retO  Outer
	retBs []byte
	retM  map[string]int64
}

func (h *H) err() error {
	if h.fail {
		return errors.New("handler failed")
	}
	return nil
}

func (h *H) Void()                       { h.ran += "Void;" }
func (h *H) VoidCtx(ctx context.Context) { h.ran += "VoidCtx;" }
func (h *H) ErrOnly(a int64) error       { h.ran += "ErrOnly;"; h.gotI = a; return h.err() }
func (h *H) Val1(a int64) int64          { h.ran += "Val1;"; h.gotI = a; return h.retI }
func (h *H) Two(ctx context.Context, a int64, s string) (string, error) {
	h.ran += "Two;"
	h.gotI, h.gotS = a, s
	if h.fail {
		return "partial", h.err()
	}
	return h.retS, nil
}
func (h *H) Three(a uint64, b bool, c string) (uint64, error) {
	h.ran += "Three;"
	h.gotU, h.gotB, h.gotS = a, b, c
	if h.fail {
		return 99, h.err()
	}
	return h.retU, nil
}
func (h *H) Ptr(ctx context.Context, p *Inner) (*Inner, error) {
	h.ran += "Ptr;"
	h.gotP = p
	return h.retP, h.err()
}
func (h *H) List(l []int64) ([]int64, error) { h.ran += "List;"; h.gotL = l; return h.retL, h.err() }
func (h *H) TwoLists(a, b []int64) ([]int64, error) {
	h.ran += "TwoLists;"
	h.gotL, h.gotL2 = a, b
	return h.retL, h.err()
}
func (h *H) Struct(o Outer) (Outer, error)  { h.ran += "Struct;"; h.gotO = o; return h.retO, h.err() }
func (h *H) Bytes(b []byte) ([]byte, error) { h.ran += "Bytes;"; h.gotBs = b; return h.retBs, h.err() }
func (h *H) Map(ctx context.Context, m map[string]int64) (map[string]int64, error) {
	h.ran += "Map;"
	h.gotM = m
	return h.retM, h.err()
}
func (h *H) Lvl(l Level) (Level, error) { h.ran += "Lvl;"; h.gotLvl = l; return h.retLvl, h.err() }
func (h *H) Option(o Opt) (Opt, error)  { h.ran += "Option;"; h.gotOpt = o; return h.retOpt, h.err() }

func kindName(v interface{}) string {
	switch v.(type) {
	case nil:
		return "nil"
	case float64:
		return "float64"
	case string:
		return "string"
	case bool:
		return "bool"
	case []interface{}:
		return "slice"
	case map[string]interface{}:
		return "map"
	}
	return "other"
}

// Any reports what Go type the JSON round trip produced for a loosely typed parameter.
func (h *H) Any(v interface{}) (string, error) {
	h.ran += "Any;"
	if f, ok := v.(float64); ok {
		h.gotF = f
	}
	return kindName(v), h.err()
}

func (h *H) AnyMap(ctx context.Context, m map[string]interface{}) (string, error) {
	h.ran += "AnyMap;"
	if f, ok := m["n"].(float64); ok {
		h.gotF = f
	}
	return kindName(m["n"]) + "," + kindName(m["s"]) + "," + kindName(m["l"]), h.err()
}

func (h *H) Float(f float64) (float64, error) { h.ran += "Float;"; h.gotF = f; return h.retF, h.err() }
func (h *H) Raw(ctx context.Context, p jsonrpc.RawParams) (string, error) {
	h.ran += "Raw;"
	v, err := jsonrpc.DecodeParams[Inner](p)
	if err != nil {
		return "", err
	}
	h.gotI, h.gotS = v.A, v.S
	return h.retS, h.err()
}

// C is the client proxy struct.
type C struct {
	Void     func()
	VoidCtx  func(ctx context.Context)
	ErrOnly  func(a int64) error
	Val1     func(a int64) int64
	Two      func(ctx context.Context, a int64, s string) (string, error)
	Three    func(a uint64, b bool, c string) (uint64, error)
	Ptr      func(ctx context.Context, p *Inner) (*Inner, error)
	List     func(l []int64) ([]int64, error)
	TwoLists func(a, b []int64) ([]int64, error)
	Struct   func(o Outer) (Outer, error)
	Bytes    func(b []byte) ([]byte, error)
	Map      func(ctx context.Context, m map[string]int64) (map[string]int64, error)
	Float    func(f float64) (float64, error)
	Any      func(v interface{}) (string, error)
	AnyMap   func(ctx context.Context, m map[string]interface{}) (string, error)
	Raw      func(ctx context.Context, p jsonrpc.RawParams) (string, error)
	Lvl      func(l Level) (Level, error)
	Option   func(o Opt) (Opt, error)
}

type fm struct {
	srv  jsonrpc.ServerOption
	cli  jsonrpc.Option
	name jsonrpc.MethodNameFormatter
}

func formatter(i int) fm {
	var f jsonrpc.MethodNameFormatter
	switch i {
	case 1:
		f = jsonrpc.NewMethodNameFormatter(true, jsonrpc.LowerFirstCharCase)
	case 2:
		f = jsonrpc.NewMethodNameFormatter(false, jsonrpc.OriginalCase)
	case 3:
		f = jsonrpc.NewMethodNameFormatter(false, jsonrpc.LowerFirstCharCase)
	case 4:
		f = func(ns, m string) string { return ns + "/" + m }
	default:
		f = jsonrpc.DefaultMethodNameFormatter
	}
	return fm{jsonrpc.WithServerMethodNameFormatter(f), jsonrpc.WithMethodNameFormatter(f), f}
}

func symInner(tag string) *Inner {
	if verif.Bool(tag + "_nil") {
		return nil
	}
	return &Inner{A: verif.Int(tag + "_A"), S: verif.String(tag+"_S", 2)}
}

func symList(tag string) []int64 {
	switch verif.Choice(tag+"_shape", 4) {
	case 0:
		return nil
	case 1:
		return []int64{}
	case 2:
		return []int64{verif.Int(tag + "_0")}
	}
	return []int64{verif.Int(tag + "_0"), verif.Int(tag + "_1")}
}

func eqInner(a, b *Inner) bool {
	if a == nil || b == nil {
		return a == nil && b == nil
	}
	return *a == *b
}

func eqList(a, b []int64) bool {
	if (a == nil) != (b == nil) || len(a) != len(b) {
		return false
	}
	for i := range a {
		if a[i] != b[i] {
			return false
		}
	}
	return true
}

func eqOuter(a, b Outer) bool {
	return a.ID == b.ID && a.In == b.In && eqInner(a.P, b.P) && eqList(a.L, b.L) && a.Flag == b.Flag
}

func symOuter(tag string) Outer {
	return Outer{Base: Base{ID: verif.Uint64(tag + "_id")}, In: Inner{A: verif.Int(tag + "_inA"), S: verif.String(tag+"_inS", 1)},
		P: symInner(tag + "_p"), L: symList(tag + "_l"), Flag: verif.Bool(tag + "_flag")}
}

func decoyClient(srv *jsonrpc.RPCServer) {
	var d struct{ Void func() }
	enc := func(reflect.Value) (reflect.Value, error) { return reflect.ValueOf("decoy"), nil }
	dc, err := jsonrpc.NewCustomClient("Decoy", []interface{}{&d}, hx.CustomDo(srv),
		jsonrpc.WithParamEncoder(new(int64), enc), jsonrpc.WithParamEncoder(new(string), enc),
		jsonrpc.WithParamEncoder(new(Outer), enc), jsonrpc.WithParamEncoder(new(*Inner), enc),
		jsonrpc.WithParamEncoder(new([]int64), enc), jsonrpc.WithParamEncoder(new(bool), enc),
		jsonrpc.WithClientHandlerAlias("NS.Void", "Decoy.Void"))
	if err == nil {
		dc()
	}
}

func setup(h *H) (*C, func()) {
	f := formatter(verif.Choice("formatter", verif.Bound("formatters", 2)))
	srv := jsonrpc.NewServer(f.srv)
	srv.Register("NS", h)
	if verif.Bool("aliases_spelled_like_registered_methods") {
		// aliases are fallbacks: an alias spelled like a registered method changes nothing,
		// whether its target exists or not
		for _, m := range []string{"Void", "ErrOnly", "Val1", "Two", "Ptr", "Struct", "Raw", "Lvl"} {
			srv.AliasMethod(f.name("NS", m), "Gone."+m)
		}
		srv.AliasMethod(f.name("NS", "List"), f.name("NS", "Bytes"))
	}
	// an earlier, unrelated client with options of its own (parameter encoders for the types
	// the shapes use, a handler alias): clients do not share option state, so it changes nothing
	decoyClient(srv)
	var c C
	var closer jsonrpc.ClientCloser
	var err error
	switch verif.Choice("transport", verif.Bound("transports", 2)) {
	case 0:
		closer, err = jsonrpc.NewCustomClient("NS", []interface{}{&c}, hx.CustomDo(srv), f.cli)
	case 1:
		closer, err = jsonrpc.NewMergeClient(context.Background(), "http://server/rpc", "NS", []interface{}{&c}, nil,
			f.cli, jsonrpc.WithHTTPClient(hx.HTTPClient(srv)))
	default:
		url, stop := verif.ServeWS(srv)
		var wsCloser jsonrpc.ClientCloser
		wsCloser, err = jsonrpc.NewMergeClient(context.Background(), url, "NS", []interface{}{&c}, nil, f.cli)
		closer = func() {
			if wsCloser != nil {
				wsCloser()
			}
			stop()
			verif.Quiesce()
		}
	}
	verif.Assert(err == nil, "client-created")
	return &c, closer
}

// HarnessShapes: one call of one signature shape with arbitrary values.
func HarnessShapes() {
	h := &H{fail: verif.Bool("fail")}
	c, closer := setup(h)
	defer closer()
	ctx := context.Background()
	shape := verif.Choice("shape", 18)
	switch shape {
	case 0:
		c.Void()
		verif.Assert(h.ran == "Void;", "void-ran")
	case 1:
		c.VoidCtx(ctx)
		verif.Assert(h.ran == "VoidCtx;", "voidctx-ran")
	case 2:
		a := verif.Int("a")
		err := c.ErrOnly(a)
		verif.Assert(h.ran == "ErrOnly;" && h.gotI == a, "erronly-arg")
		verif.Assert((err != nil) == h.fail, "erronly-error")
	case 3:
		a := verif.Int("a")
		h.retI = verif.Int("ret")
		v := c.Val1(a)
		verif.Assert(h.ran == "Val1;" && h.gotI == a, "val1-arg")
		verif.Assert(v == h.retI, "val1-result")
	case 4:
		a, s := verif.Int("a"), verif.String("s", 3)
		h.retS = verif.String("ret", 3)
		v, err := c.Two(ctx, a, s)
		verif.Assert(h.ran == "Two;" && h.gotI == a && h.gotS == s, "two-args-in-order")
		if h.fail {
			verif.Assert(err != nil && v == "", "two-zero-value-on-error")
		} else {
			verif.Assert(err == nil && v == h.retS, "two-result")
		}
	case 5:
		a, b, s := verif.Uint64("a"), verif.Bool("b"), verif.String("s", 2)
		h.retU = verif.Uint64("ret")
		v, err := c.Three(a, b, s)
		verif.Assert(h.ran == "Three;" && h.gotU == a && h.gotB == b && h.gotS == s, "three-args-in-order")
		if h.fail {
			verif.Assert(err != nil && v == 0, "three-zero-value-on-error")
		} else {
			verif.Assert(err == nil && v == h.retU, "three-result")
		}
	case 6:
		p := symInner("p")
		h.retP = symInner("ret")
		v, err := c.Ptr(ctx, p)
		verif.Assert(h.ran == "Ptr;" && eqInner(h.gotP, p), "ptr-arg")
		if h.fail {
			verif.Assert(err != nil && v == nil, "ptr-zero-value-on-error")
		} else {
			verif.Assert(err == nil && eqInner(v, h.retP), "ptr-result")
		}
	case 7:
		l := symList("l")
		h.retL = symList("ret")
		v, err := c.List(l)
		verif.Assert(h.ran == "List;" && eqList(h.gotL, l), "list-arg")
		if h.fail {
			verif.Assert(err != nil && v == nil, "list-zero-value-on-error")
		} else {
			verif.Assert(err == nil && eqList(v, h.retL), "list-result")
		}
	case 17:
		// two parameters of one composite type: each is decoded on its own (the second may be
		// shorter than the first)
		a, b := symList("la"), symList("lb")
		h.retL = symList("ret")
		v, err := c.TwoLists(a, b)
		verif.Assert(h.ran == "TwoLists;" && eqList(h.gotL, a) && eqList(h.gotL2, b), "two-lists-args")
		if h.fail {
			verif.Assert(err != nil && v == nil, "list-zero-value-on-error")
		} else {
			verif.Assert(err == nil && eqList(v, h.retL), "list-result")
		}
	case 8:
		o := symOuter("o")
		h.retO = symOuter("ret")
		v, err := c.Struct(o)
		verif.Assert(h.ran == "Struct;" && eqOuter(h.gotO, o), "struct-arg")
		if h.fail {
			verif.Assert(err != nil && eqOuter(v, Outer{}), "struct-zero-value-on-error")
		} else {
			verif.Assert(err == nil && eqOuter(v, h.retO), "struct-result")
		}
	case 9:
		var b []byte
		switch verif.Choice("bshape", 3) {
		case 1:
			b = []byte{}
		case 2:
			b = []byte("hi\x00\xff")
		}
		h.retBs = []byte("ok")
		v, err := c.Bytes(b)
		verif.Assert(h.ran == "Bytes;" && (h.gotBs == nil) == (b == nil) && string(h.gotBs) == string(b), "bytes-arg")
		if h.fail {
			verif.Assert(err != nil && v == nil, "bytes-zero-value-on-error")
		} else {
			verif.Assert(err == nil && string(v) == "ok", "bytes-result")
		}
	case 10:
		var m map[string]int64
		switch verif.Choice("mshape", 3) {
		case 1:
			m = map[string]int64{}
		case 2:
			m = map[string]int64{"k": verif.Int("mv"), "j": 2}
		}
		h.retM = map[string]int64{"r": verif.Int("ret")}
		v, err := c.Map(ctx, m)
		verif.Assert(h.ran == "Map;" && (h.gotM == nil) == (m == nil) && len(h.gotM) == len(m) && h.gotM["k"] == m["k"] && h.gotM["j"] == m["j"], "map-arg")
		if h.fail {
			verif.Assert(err != nil && v == nil, "map-zero-value-on-error")
		} else {
			verif.Assert(err == nil && len(v) == 1 && v["r"] == h.retM["r"], "map-result")
		}
	case 11:
		f := verif.Float64("f")
		verif.Assume(!math.IsNaN(f) && !math.IsInf(f, 0))
		h.retF = verif.Float64("ret")
		verif.Assume(!math.IsNaN(h.retF) && !math.IsInf(h.retF, 0))
		v, err := c.Float(f)
		verif.Assert(h.ran == "Float;" && h.gotF == f, "float-arg")
		if h.fail {
			verif.Assert(err != nil && v == 0, "float-zero-value-on-error")
		} else {
			verif.Assert(err == nil && v == h.retF, "float-result")
		}
	case 12:
		a, s := verif.Int("a"), verif.String("s", 2)
		h.retS = verif.String("ret", 2)
		raw, _ := jsonMarshal(Inner{A: a, S: s})
		v, err := c.Raw(ctx, jsonrpc.RawParams(raw))
		verif.Assert(h.ran == "Raw;" && h.gotI == a && h.gotS == s, "raw-arg")
		if h.fail {
			verif.Assert(err != nil && v == "", "raw-zero-value-on-error")
		} else {
			verif.Assert(err == nil && v == h.retS, "raw-result")
		}
	case 13:
		n := verif.Int("n")
		verif.Assume(n >= -(1<<53) && n <= 1<<53)
		var arg interface{}
		want := ""
		switch verif.Choice("anykind", 5) {
		case 0:
			arg, want = n, "float64"
		case 1:
			arg, want = verif.String("s", 2), "string"
		case 2:
			arg, want = verif.Bool("b"), "bool"
		case 3:
			arg, want = nil, "nil"
		case 4:
			arg, want = []int64{n}, "slice"
		}
		v, err := c.Any(arg)
		verif.Assert(h.ran == "Any;", "any-ran")
		if !h.fail {
			verif.Assert(err == nil && v == want, "loosely-typed-param-gets-the-json-round-trip-type")
			if want == "float64" {
				verif.Assert(h.gotF == float64(n), "loosely-typed-number-value")
			}
		} else {
			verif.Assert(err != nil && v == "", "any-zero-value-on-error")
		}
	case 14:
		n := verif.Int("n")
		verif.Assume(n >= -(1<<53) && n <= 1<<53)
		v, err := c.AnyMap(ctx, map[string]interface{}{"n": n, "s": "x", "l": []interface{}{1, "y"}})
		verif.Assert(h.ran == "AnyMap;", "anymap-ran")
		if !h.fail {
			verif.Assert(err == nil && v == "float64,string,slice", "loosely-typed-map-gets-the-json-round-trip-types")
			verif.Assert(h.gotF == float64(n), "loosely-typed-map-number-value")
		} else {
			verif.Assert(err != nil && v == "", "anymap-zero-value-on-error")
		}
	case 15:
		// a type with its own codec: every member, including the zero member, round-trips through it
		a := Level(verif.Choice("lvl_arg", 3))
		h.retLvl = Level(verif.Choice("lvl_ret", 3))
		v, err := c.Lvl(a)
		verif.Assert(h.ran == "Lvl;" && h.gotLvl == a, "custom-codec-arg")
		if h.fail {
			verif.Assert(err != nil && v == 0, "custom-codec-zero-value-on-error")
		} else {
			verif.Assert(err == nil && v == h.retLvl, "custom-codec-result-round-trip")
		}
	case 16:
		a := Opt{N: verif.Int("opt_arg")}
		h.retOpt = Opt{N: verif.Int("opt_ret")}
		v, err := c.Option(a)
		verif.Assert(h.ran == "Option;" && h.gotOpt == Opt{Decoded: true, N: a.N}, "custom-codec-arg-goes-through-its-decoder")
		if h.fail {
			verif.Assert(err != nil && v == Opt{}, "custom-codec-zero-value-on-error")
		} else {
			verif.Assert(err == nil && v == Opt{Decoded: true, N: h.retOpt.N}, "custom-codec-result-goes-through-its-decoder")
		}
	}
	verif.Reach("shape-done")
}

type flakyTransport struct {
	do    func(ctx context.Context, body []byte) (io.ReadCloser, error)
	failN int
}

// HarnessSequence: calls are independent of each other: a call that failed on the
// client side (transport error / undecodable result) leaves no trace in later
// calls of the same generated function, and vice versa.
func HarnessSequence() {
	h := &H{}
	srv := jsonrpc.NewServer()
	srv.Register("NS", h)
	var c C
	failFirst := verif.Choice("first_call", 3) // 0 ok, 1 transport error, 2 handler error
	n := 0
	inner := hx.CustomDo(srv)
	closer, err := jsonrpc.NewCustomClient("NS", []interface{}{&c}, func(ctx context.Context, body []byte) (io.ReadCloser, error) {
		n++
		if n == 1 && failFirst == 1 {
			return nil, errors.New("transport down")
		}
		return inner(ctx, body)
	})
	verif.Assert(err == nil, "client-created")
	defer closer()
	a1, a2 := verif.Int("a1"), verif.Int("a2")
	h.retS = "r1"
	h.fail = failFirst == 2
	v1, e1 := c.Two(context.Background(), a1, "x")
	verif.Assert((e1 != nil) == (failFirst != 0), "first-call-outcome")
	if failFirst == 0 {
		verif.Assert(v1 == "r1", "first-call-result")
	}
	// second call of the same function: healthy
	h.fail = false
	h.retS = "r2"
	v2, e2 := c.Two(context.Background(), a2, "y")
	verif.Assert(e2 == nil, "later-call-unaffected-by-earlier-failure")
	verif.Assert(v2 == "r2" && h.gotI == a2 && h.gotS == "y", "later-call-own-arguments-and-result")
	// and a third one that fails again
	h.fail = true
	v3, e3 := c.Two(context.Background(), a1, "z")
	verif.Assert(e3 != nil && v3 == "", "later-failure-still-reported")
	verif.Reach("sequence-done")
}

// OH serves overlapping calls: every handler parks until released and only then
// looks at its arguments.
type OH struct {
	mu      sync.Mutex
	release chan struct{}
	sawRaw  map[int64]string
	sawArgs map[int64]string
}

func (h *OH) RawWait(ctx context.Context, p jsonrpc.RawParams) (int64, error) {
	<-h.release
	v, err := jsonrpc.DecodeParams[Inner](p)
	if err != nil {
		return -1, err
	}
	h.mu.Lock()
	h.sawRaw[v.A] = v.S
	h.mu.Unlock()
	return v.A, nil
}

func (h *OH) ArgWait(ctx context.Context, a int64, s string) (int64, error) {
	<-h.release
	h.mu.Lock()
	h.sawArgs[a] = s
	h.mu.Unlock()
	return a, nil
}

type OC struct {
	RawWait func(ctx context.Context, p jsonrpc.RawParams) (int64, error)
	ArgWait func(ctx context.Context, a int64, s string) (int64, error)
}

// HarnessOverlappingCalls: two calls overlap on one WebSocket connection; the
// handler of the first is still running (and has not looked at its arguments yet)
// when the second request arrives. Each handler sees the round trip of its own
// arguments, whatever the relative lengths of the two argument lists.
func HarnessOverlappingCalls() {
	h := &OH{release: make(chan struct{}), sawRaw: map[int64]string{}, sawArgs: map[int64]string{}}
	srv := jsonrpc.NewServer()
	srv.Register("NS", h)
	url, stop := verif.ServeWS(srv)
	var c OC
	closer, err := jsonrpc.NewMergeClient(context.Background(), url, "NS", []interface{}{&c}, nil)
	verif.Assert(err == nil, "client-created")
	raw := verif.Bool("raw_params")
	s1 := "the-first-call" + verif.String("s1", 1)
	s2 := "second" + verif.String("s2", 1)
	if verif.Bool("second_longer") {
		s1, s2 = s2, s1
	}
	rets := [2]int{}
	call := func(i int, a int64, s string) {
		var v int64
		var err error
		if raw {
			rawArg, _ := jsonMarshal(Inner{A: a, S: s})
			v, err = c.RawWait(context.Background(), jsonrpc.RawParams(rawArg))
		} else {
			v, err = c.ArgWait(context.Background(), a, s)
		}
		if err == nil && v == a {
			rets[i]++
		}
	}
	go call(0, 1, s1)
	verif.Quiesce() // the first handler is parked
	go call(1, 2, s2)
	verif.Quiesce() // so is the second
	close(h.release)
	verif.Quiesce()
	verif.Assert(rets[0] == 1 && rets[1] == 1, "both-calls-return-their-own-results")
	saw := h.sawArgs
	if raw {
		saw = h.sawRaw
	}
	verif.Assert(saw[1] == s1, "first-handler-sees-its-own-arguments")
	verif.Assert(saw[2] == s2, "second-handler-sees-its-own-arguments")
	closer()
	stop()
	verif.Quiesce()
	verif.Reach("overlapping-calls-done")
}
