package c06

import (
	"testing"

	"gjvharness/verif"
)

func TestReplay(t *testing.T) {
	verif.ReplayMain(map[string]func(){
		"HarnessClientCancel":               HarnessClientCancel,
		"HarnessHTTPCancel":                 HarnessHTTPCancel,
		"HarnessManySubscriptions":          HarnessManySubscriptions,
		"HarnessServerCancel":               HarnessServerCancel,
		"HarnessSubscribeCancelledInFlight": HarnessSubscribeCancelledInFlight,
		"HarnessSubscriptionCancel":         HarnessSubscriptionCancel,
	})
}
