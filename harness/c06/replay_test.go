package c06

import (
	"testing"

	"gjvharness/verif"
)

func TestReplay(t *testing.T) {
	verif.ReplayMain(map[string]func(){
		"HarnessBatchContexts":              HarnessBatchContexts,
		"HarnessClientCancel":               HarnessClientCancel,
		"HarnessHTTPCancel":                 HarnessHTTPCancel,
		"HarnessManySubscriptions":          HarnessManySubscriptions,
		"HarnessServerCancel":               HarnessServerCancel,
		"HarnessSubscribeCancelledInFlight": HarnessSubscribeCancelledInFlight,
		"HarnessSubscriptionCancel":         HarnessSubscriptionCancel,
	})
}
