// Package c06: cancellation reaches exactly the cancelled call's handler, and nothing else.
package c06

import (
	"bytes"
	"context"
	"encoding/json"
	"net/http"
	"strings"
	"sync"

	jsonrpc "github.com/filecoin-project/go-jsonrpc"

	"gjvharness/hx"
	"gjvharness/verif"
)

type H struct {
	mu      sync.Mutex
	ctxs    map[int]context.Context
	release map[int]chan struct{}
	done    map[int]int
	started map[int]int
}

func newH() *H {
	return &H{ctxs: map[int]context.Context{}, release: map[int]chan struct{}{}, done: map[int]int{}, started: map[int]int{}}
}

// Wait blocks until its context is cancelled or the harness releases it.
func (h *H) set(f func()) { h.mu.Lock(); f(); h.mu.Unlock() }

func (h *H) Wait(ctx context.Context, tag int) (int, error) {
	h.set(func() { h.ctxs[tag] = ctx; h.started[tag]++ })
	select {
	case <-ctx.Done():
		h.set(func() { h.done[tag] = 2 })
		return 0, ctx.Err()
	case <-h.release[tag]:
		h.set(func() { h.done[tag] = 1 })
		return tag, nil
	}
}

// Stream returns a channel and keeps feeding it until its context is cancelled.
func (h *H) Stream(ctx context.Context, tag int) (<-chan int, error) {
	h.set(func() { h.ctxs[tag] = ctx; h.started[tag]++ })
	out := make(chan int)
	go func() {
		defer close(out)
		select {
		case <-ctx.Done():
			h.set(func() { h.done[tag] = 2 })
		case <-h.release[tag]:
			h.set(func() { h.done[tag] = 1 })
		}
	}()
	return out, nil
}

func symID(tag string) interface{} {
	if verif.Bool(tag + "_is_string") {
		return verif.String(tag+"_s", 2)
	}
	n := verif.Int(tag + "_n")
	verif.Assume(n >= -(1<<53) && n <= 1<<53)
	return n
}

func sameID(a, b interface{}) bool {
	switch x := a.(type) {
	case string:
		y, ok := b.(string)
		return ok && x == y
	case int64:
		y, ok := b.(int64)
		return ok && x == y
	}
	return false
}

func sendJSON(pc *verif.PeerConn, m map[string]interface{}) {
	b, _ := json.Marshal(m)
	pc.Send(b)
}

// HarnessServerCancel: N handlers wait on their contexts; the peer cancels a
// chosen subset with xrpc.cancel at a chosen instant. Exactly the cancelled
// handlers see their context done; the others stay live until released.
func HarnessServerCancel() {
	n := verif.Bound("N", 2)
	h := newH()
	srv := jsonrpc.NewServer()
	srv.Register("H", h)
	pc := verif.DialRaw(srv, nil)
	ids := make([]interface{}, n)
	cancelIt := make([]bool, n)
	stream := make([]bool, n)
	for i := 0; i < n; i++ {
		ids[i] = symID("id" + string(rune('0'+i)))
		for j := 0; j < i; j++ {
			verif.Assume(!sameID(ids[i], ids[j]))
		}
		cancelIt[i] = verif.Bool("cancel" + string(rune('0'+i)))
		h.release[i] = make(chan struct{})
	}
	if n > 2 {
		stream[n-1] = true // one subscription among the calls
	}
	for i := 0; i < n; i++ {
		m := "H.Wait"
		if stream[i] {
			m = "H.Stream"
		}
		sendJSON(pc, map[string]interface{}{"jsonrpc": "2.0", "id": ids[i], "method": m, "params": []interface{}{i}})
	}
	early := verif.Bool("cancel_right_after_send")
	if !early {
		verif.Quiesce() // all handlers are blocked (streams: response already sent)
	}
	// also an unrelated cancel for an id nobody uses
	sendJSON(pc, map[string]interface{}{"jsonrpc": "2.0", "method": "xrpc.cancel", "params": []interface{}{"no-such-id"}})
	for i := 0; i < n; i++ {
		if cancelIt[i] {
			sendJSON(pc, map[string]interface{}{"jsonrpc": "2.0", "method": "xrpc.cancel", "params": []interface{}{ids[i]}})
		}
	}
	verif.Quiesce()
	for i := 0; i < n; i++ {
		verif.Assert(h.started[i] == 1, "handler-started-once")
		if h.ctxs[i] == nil {
			continue
		}
		if cancelIt[i] {
			verif.Assert(h.ctxs[i].Err() != nil, "cancelled-call-context-done")
		} else {
			verif.Assert(h.ctxs[i].Err() == nil, "uncancelled-call-context-live")
			verif.Assert(h.done[i] == 0, "uncancelled-handler-still-waiting")
		}
	}
	// release the rest: they complete normally
	for i := 0; i < n; i++ {
		if !cancelIt[i] {
			close(h.release[i])
		}
	}
	verif.Quiesce()
	for i := 0; i < n; i++ {
		if !cancelIt[i] {
			verif.Assert(h.done[i] == 1, "released-handler-completes-normally")
		}
	}
	pc.CloseGraceful()
	verif.Quiesce()
	verif.Reach("server-cancel-done")
}

type C struct {
	Wait func(ctx context.Context, tag int) (int, error)
}

type wireReq struct {
	ID     json.RawMessage   `json:"id"`
	Method string            `json:"method"`
	Params []json.RawMessage `json:"params"`
}

// HarnessClientCancel: cancelling a waiting call's context emits exactly one
// xrpc.cancel notification carrying that call's id, after its request frame, and
// nothing for the other call.
func HarnessClientCancel() {
	l := verif.ListenWS()
	var frames []wireReq
	go func() {
		verif.Daemon()
		pc := l.Accept()
		for {
			b, ok := pc.Recv()
			if !ok {
				return
			}
			var r wireReq
			if json.Unmarshal(b, &r) == nil {
				frames = append(frames, r)
			}
		}
	}()
	var c C
	closer, err := jsonrpc.NewMergeClient(context.Background(), l.URL(), "H", []interface{}{&c}, nil)
	verif.Assert(err == nil, "client-created")
	ctx0, cancel0 := context.WithCancel(context.Background())
	ctx1, cancel1 := context.WithCancel(context.Background())
	defer cancel1()
	ret := [2]int{}
	go func() { c.Wait(ctx0, 0); ret[0]++ }()
	go func() { c.Wait(ctx1, 1); ret[1]++ }()
	go func() {
		verif.AtStep("cancel_at", verif.Bound("steps", 20))
		cancel0()
	}()
	verif.Quiesce()
	// locate the request frames by their tag parameter
	reqID := map[int]string{}
	reqPos := map[int]int{}
	for i, f := range frames {
		if f.Method == "H.Wait" {
			var tag int
			json.Unmarshal(f.Params[0], &tag)
			reqID[tag] = string(f.ID)
			reqPos[tag] = i
		}
	}
	cancels := 0
	for i, f := range frames {
		if f.Method == "xrpc.cancel" {
			cancels++
			verif.Assert(f.ID == nil || string(f.ID) == "null", "cancel-is-a-notification")
			verif.Assert(len(f.Params) == 1 && string(f.Params[0]) == reqID[0], "cancel-carries-the-cancelled-calls-id")
			verif.Assert(i > reqPos[0], "cancel-follows-its-request")
		}
	}
	if _, sent := reqID[0]; sent {
		verif.Assert(cancels == 1, "exactly-one-cancel-notification")
	} else {
		verif.Assert(cancels <= 1, "at-most-one-cancel-notification")
	}
	verif.Assert(ret[1] == 0, "other-call-undisturbed")
	closer()
	verif.Quiesce()
	verif.Assert(ret[0] == 1 && ret[1] == 1, "calls-return-after-close")
	verif.Reach("client-cancel-done")
}

// HarnessHTTPCancel: over HTTP the handler context descends from the request context.
func HarnessHTTPCancel() {
	h := newH()
	h.release[0] = make(chan struct{})
	srv := jsonrpc.NewServer()
	srv.Register("H", h)
	var c C
	closer, err := jsonrpc.NewMergeClient(context.Background(), "http://server/rpc", "H", []interface{}{&c}, nil,
		jsonrpc.WithHTTPClient(&http.Client{Transport: &hx.HandlerTransport{H: srv}}))
	verif.Assert(err == nil, "client-created")
	ctx, cancel := context.WithCancel(context.Background())
	ret := 0
	go func() { c.Wait(ctx, 0); ret++ }()
	verif.Quiesce()
	verif.Assert(h.started[0] == 1 && h.ctxs[0] != nil && h.ctxs[0].Err() == nil, "handler-context-live-before-cancel")
	cancel()
	verif.Quiesce()
	verif.Assert(h.done[0] == 2, "http-handler-context-cancelled")
	verif.Assert(ret == 1, "http-call-returns")
	closer()
	verif.Reach("http-cancel-done")
}

type CS struct {
	Wait       func(ctx context.Context, tag int) (int, error)
	Stream     func(ctx context.Context, tag int) (<-chan int, error)
	SlowStream func(ctx context.Context, tag int) (<-chan int, error)
	// the same subscription reached through a server-side alias
	StreamAlias func(ctx context.Context, tag int) (<-chan int, error) `rpc_method:"subscribe_v1"`
}

// SlowStream takes its time to set the subscription up: it returns its channel only
// when released, or gives up when its context is cancelled.
func (h *H) SlowStream(ctx context.Context, tag int) (<-chan int, error) {
	h.set(func() { h.ctxs[tag] = ctx; h.started[tag]++ })
	select {
	case <-ctx.Done():
		h.set(func() { h.done[tag] = 2 })
		return nil, ctx.Err()
	case <-h.release[tag]:
	}
	out := make(chan int)
	close(out)
	return out, nil
}

// HarnessSubscribeCancelledInFlight: the context of a subscribing call is
// cancelled while the call itself is still in flight (the handler has not yet
// returned its channel): the handler's context is cancelled, and the caller
// gets its call back.
func HarnessSubscribeCancelledInFlight() {
	h := newH()
	for i := 0; i < 4; i++ {
		h.release[i] = make(chan struct{})
	}
	srv := jsonrpc.NewServer()
	srv.Register("H", h)
	url, stop := verif.ServeWS(srv)
	var c CS
	closer, err := jsonrpc.NewMergeClient(context.Background(), url, "H", []interface{}{&c}, nil)
	verif.Assert(err == nil, "client-created")
	otherRet := 0
	go func() { c.Wait(context.Background(), 0); otherRet++ }()
	subCtx, cancelSub := context.WithCancel(context.Background())
	subRet := 0
	go func() {
		ch, _ := c.SlowStream(subCtx, 3)
		if ch != nil {
			for range ch {
			}
		}
		subRet++
	}()
	verif.Quiesce() // both handlers are running
	var sc context.Context
	h.set(func() { sc = h.ctxs[3] })
	verif.Assert(sc != nil && sc.Err() == nil, "subscription-handler-context-live-before-cancel")
	cancelSub()
	verif.Quiesce()
	verif.Assert(sc.Err() != nil, "cancelling-an-in-flight-subscribing-call-cancels-its-handler")
	verif.Assert(subRet == 1, "cancelled-subscribing-call-returns")
	var oc context.Context
	h.set(func() { oc = h.ctxs[0] })
	verif.Assert(oc != nil && oc.Err() == nil && otherRet == 0, "other-call-undisturbed")
	close(h.release[0])
	verif.Quiesce()
	verif.Assert(otherRet == 1, "other-call-completes-normally")
	closer()
	stop()
	verif.Quiesce()
	verif.Reach("subscribe-cancelled-in-flight-done")
}

// HarnessSubscriptionCancel: real client and real server. A plain call is in
// flight and (optionally after other calls, so that request ids and channel ids
// differ) a subscription is established; cancelling the subscription's context
// cancels exactly the subscription handler's context, after the subscribing call
// returned, and leaves the other call alone.
func HarnessSubscriptionCancel() {
	h := newH()
	for i := 0; i < 4; i++ {
		h.release[i] = make(chan struct{})
	}
	srv := jsonrpc.NewServer()
	srv.Register("H", h)
	srv.AliasMethod("subscribe_v1", "H.Stream")
	url, stop := verif.ServeWS(srv)
	var c CS
	closer, err := jsonrpc.NewMergeClient(context.Background(), url, "H", []interface{}{&c}, nil)
	verif.Assert(err == nil, "client-created")
	subscribe := c.Stream
	if verif.Bool("via_alias") {
		subscribe = c.StreamAlias
	}
	pre := verif.Choice("calls_before", 3) // shifts request ids relative to channel ids
	waitRet := 0
	for i := 0; i < pre; i++ {
		i := i
		go func() { c.Wait(context.Background(), i); waitRet++ }()
	}
	verif.Quiesce()
	subCtx, cancelSub := context.WithCancel(context.Background())
	ch, serr := subscribe(subCtx, 3)
	verif.Assert(serr == nil && ch != nil, "subscription-established")
	closed := 0
	go func() {
		for range ch {
		}
		closed++
	}()
	verif.Quiesce()
	verif.Assert(h.ctxs[3] != nil && h.ctxs[3].Err() == nil, "subscription-context-live-before-cancel")
	cancelSub()
	verif.Quiesce()
	verif.Assert(h.ctxs[3] != nil && h.ctxs[3].Err() != nil, "cancelling-subscription-context-cancels-its-handler")
	verif.Assert(closed == 1, "cancelled-subscription-channel-closed")
	for i := 0; i < pre; i++ {
		verif.Assert(h.ctxs[i] != nil && h.ctxs[i].Err() == nil, "other-calls-context-live")
	}
	verif.Assert(waitRet == 0, "other-calls-still-in-flight")
	for i := 0; i < pre; i++ {
		close(h.release[i])
	}
	verif.Quiesce()
	verif.Assert(waitRet == pre, "other-calls-complete-normally")
	closer()
	stop()
	verif.Quiesce()
	verif.Reach("subscription-cancel-done")
}

// HarnessManySubscriptions: S subscriptions on one connection end one after the
// other in every order, each either because its caller cancels or because its
// handler finishes. After every step the handler contexts of the subscriptions
// that are still open are live and their caller channels are open: ending one
// subscription affects only that subscription.
func HarnessManySubscriptions() {
	S := verif.Bound("S", 3)
	h := newH()
	for i := 0; i <= S; i++ {
		h.release[i] = make(chan struct{})
	}
	srv := jsonrpc.NewServer()
	srv.Register("H", h)
	url, stop := verif.ServeWS(srv)
	var c CS
	closer, err := jsonrpc.NewMergeClient(context.Background(), url, "H", []interface{}{&c}, nil)
	verif.Assert(err == nil, "client-created")
	cancels := make([]context.CancelFunc, S+1)
	var mu sync.Mutex
	closed := make([]int, S+1)
	subscribe := func(i int) {
		ctx, cancel := context.WithCancel(context.Background())
		cancels[i] = cancel
		ch, serr := c.Stream(ctx, i)
		verif.Assert(serr == nil && ch != nil, "subscription-established")
		go func() {
			for range ch {
			}
			mu.Lock()
			closed[i]++
			mu.Unlock()
		}()
	}
	for i := 0; i < S; i++ {
		subscribe(i)
	}
	verif.Quiesce()
	live := make([]int, 0, S)
	for i := 0; i < S; i++ {
		live = append(live, i)
	}
	for step := 0; len(live) > 0; step++ {
		sn := string(rune('0' + step))
		k := verif.Choice("end"+sn, len(live))
		victim := live[k]
		live = append(live[:k:k], live[k+1:]...)
		if verif.Bool("by_cancel" + sn) {
			cancels[victim]()
		} else {
			close(h.release[victim])
		}
		verif.Quiesce()
		mu.Lock()
		verif.Assert(closed[victim] == 1, "ended-subscription-channel-closed")
		for _, o := range live {
			var oc context.Context
			h.set(func() { oc = h.ctxs[o] })
			verif.Assert(oc != nil && oc.Err() == nil, "other-subscription-context-stays-live")
			verif.Assert(closed[o] == 0, "other-subscription-channel-stays-open")
		}
		mu.Unlock()
		if step == 0 && len(live) > 0 && verif.Bool("newcomer_after_first_end") {
			// a new subscription is opened after one has ended while others are still open;
			// it then takes part in the remaining steps like any other
			subscribe(S)
			verif.Quiesce()
			live = append(live, S)
		}
	}
	closer()
	stop()
	verif.Quiesce()
	verif.Reach("many-subscriptions-done")
}

// BH records whether the context each call was handed is live while the call runs.
type BH struct {
	mu   sync.Mutex
	live map[int]bool
}

func (h *BH) Quick(a int) int { return a }
func (h *BH) Peek(ctx context.Context, tag int) (int, error) {
	h.mu.Lock()
	h.live[tag] = ctx.Err() == nil
	h.mu.Unlock()
	return tag, nil
}

// HarnessBatchContexts: over HTTP (and HandleRequest) every element of a batch is
// a call of its own: the context a handler sees is live while that handler runs,
// whatever the elements before it did (returned, failed, were notifications), as
// long as the request itself was not aborted.
func HarnessBatchContexts() {
	h := &BH{live: map[int]bool{}}
	srv := jsonrpc.NewServer()
	srv.Register("B", h)
	firsts := []string{
		`{"jsonrpc":"2.0","id":1,"method":"B.Quick","params":[1]}`,
		`{"jsonrpc":"2.0","method":"B.Quick","params":[1]}`,
		`{"jsonrpc":"2.0","id":1,"method":"B.Nope","params":[1]}`,
		`{"jsonrpc":"2.0","id":1,"method":"B.Quick","params":[1,2]}`,
		`{"jsonrpc":"2.0","id":1,"method":"B.Peek","params":[5]}`,
	}
	first := firsts[verif.Choice("first_element", len(firsts))]
	body := "[" + first + `,{"jsonrpc":"2.0","id":2,"method":"B.Peek","params":[7]},{"jsonrpc":"2.0","id":3,"method":"B.Peek","params":[8]}]`
	parent, cancel := context.WithCancel(context.Background())
	defer cancel()
	var out bytes.Buffer
	srv.HandleRequest(parent, strings.NewReader(body), &out)
	h.mu.Lock()
	verif.Assert(h.live[7], "second-batch-element-sees-a-live-context")
	verif.Assert(h.live[8], "third-batch-element-sees-a-live-context")
	h.mu.Unlock()
	verif.Assert(parent.Err() == nil, "callers-context-untouched")
	verif.Reach("batch-contexts-done")
}
