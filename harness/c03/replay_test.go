package c03

import (
	"testing"

	"gjvharness/verif"
)

func TestReplay(t *testing.T) {
	verif.ReplayMain(map[string]func(){
		"HarnessConcurrentSameMethod": HarnessConcurrentSameMethod,
		"HarnessFailingNotifications": HarnessFailingNotifications,
		"HarnessFaults":               HarnessFaults,
		"HarnessHTTPAtMostOnce":       HarnessHTTPAtMostOnce,
		"HarnessNotify":               HarnessNotify,
		"HarnessRetry":                HarnessRetry,
	})
}
