package c03

import (
	"testing"

	"gjvharness/verif"
)

func TestReplay(t *testing.T) {
	verif.ReplayMain(map[string]func(){
		"HarnessFailingNotifications": HarnessFailingNotifications,
		"HarnessFaults":               HarnessFaults,
		"HarnessHTTPAtMostOnce":       HarnessHTTPAtMostOnce,
		"HarnessNotify":               HarnessNotify,
		"HarnessRetry":                HarnessRetry,
	})
}
