// Package c03: no call hangs or gets a foreign result, whatever connection fault occurs
// (also carries the C04 at-most-once and C05 self-healing observations of the same runs).
package c03

import (
	"bytes"
	"context"
	"encoding/json"
	"errors"
	"io"
	"net/http"
	"sync"
	"time"

	jsonrpc "github.com/filecoin-project/go-jsonrpc"

	"gjvharness/hx"
	"gjvharness/verif"
)

type C struct {
	Echo  func(ctx context.Context, tok int64) (int64, error)
	Retry func(ctx context.Context, tok int64) (int64, error) `retry:"true" rpc_method:"NS.Echo"`
	Note  func(tok int64) error                               `notify:"true"`
	// explicitly NOT tagged: must behave exactly like untagged fields
	NoRetry   func(ctx context.Context, tok int64) (int64, error) `retry:"false" rpc_method:"NS.Echo"`
	NotNotify func(tok int64) error                               `notify:"false" rpc_method:"NS.Echo"`
	// other signature shapes of an untagged function: no error result, no context
	Plain    func(tok int64) int64                      `rpc_method:"NS.Echo"`
	PlainCtx func(ctx context.Context, tok int64) int64 `rpc_method:"NS.Echo"`
	NoCtx    func(tok int64) (int64, error)             `rpc_method:"NS.Echo"`
}

type wireReq struct {
	ID     json.RawMessage   `json:"id"`
	Method string            `json:"method"`
	Params []json.RawMessage `json:"params"`
}

// peer statistics (per run)
type stats struct {
	frames map[int64]int // request frames seen per token
	noID   map[int64]int // notification frames per token
	execs  map[int64]int // "handler executions" = requests answered or consumed by the fake server
	conns  int
}

func newStats() *stats {
	return &stats{frames: map[int64]int{}, noID: map[int64]int{}, execs: map[int64]int{}}
}

func tokenOf(r wireReq) int64 {
	var t int64
	if len(r.Params) > 0 {
		json.Unmarshal(r.Params[0], &t)
	}
	return t
}

// serve answers every request with its own first parameter, for ever.
func serve(pc *verif.PeerConn, st *stats) {
	for {
		b, ok := pc.Recv()
		if !ok {
			return
		}
		var r wireReq
		if json.Unmarshal(b, &r) != nil || r.Method == "xrpc.cancel" {
			continue
		}
		tok := tokenOf(r)
		if r.ID == nil {
			st.noID[tok]++
			st.execs[tok]++
			continue
		}
		st.frames[tok]++
		st.execs[tok]++
		rb, _ := json.Marshal(map[string]interface{}{"jsonrpc": "2.0", "id": r.ID, "result": r.Params[0]})
		pc.Send(rb)
	}
}

const (
	faultClose = iota
	faultAbort
	faultTruncated
	nFaults
)

func inject(pc *verif.PeerConn, kind int) {
	switch kind {
	case faultClose:
		pc.CloseGraceful()
	case faultAbort:
		pc.Abort()
	case faultTruncated:
		pc.SendTruncated()
	}
}

// faultyPeer: first connection suffers a fault at a chosen position relative to
// the first request; later connections (after failDials refused dials) are healthy,
// except that a second fault may hit the second connection.
func faultyPeer(l *verif.Listener, st *stats, kind, pos, failDials int, second int) {
	verif.Daemon()
	pc := l.Accept()
	st.conns++
	switch pos {
	case 0: // before any request is read
		l.FailNext(failDials)
		inject(pc, kind)
	default:
		b, ok := pc.Recv()
		if ok {
			var r wireReq
			json.Unmarshal(b, &r)
			tok := tokenOf(r)
			st.frames[tok]++
			if pos == 2 { // answer first, then fail
				st.execs[tok]++
				rb, _ := json.Marshal(map[string]interface{}{"jsonrpc": "2.0", "id": r.ID, "result": r.Params[0]})
				pc.Send(rb)
			}
		}
		l.FailNext(failDials)
		inject(pc, kind)
	}
	for {
		pc = l.Accept()
		st.conns++
		if second > 0 {
			inject(pc, second-1)
			second = 0
			continue
		}
		serve(pc, st)
	}
}

var errNoErrorResult = errors.New("(function has no error result)")

type outcome struct {
	returns int
	val     int64
	err     error
}

func call(f func(ctx context.Context, tok int64) (int64, error), tok int64, o *outcome) {
	v, err := f(context.Background(), tok)
	o.returns++
	o.val, o.err = v, err
}

// HarnessFaults: calls in flight and calls issued at every instant around a
// connection fault; afterwards no caller is blocked, every result is the caller's
// own token or an error, non-retry calls produced at most one request frame, and
// (reconnecting clients) a later probe call round-trips.
func HarnessFaults() {
	kind := verif.Choice("fault", nFaults)
	pos := verif.Choice("pos", 3)
	failDials := verif.Choice("faildials", verif.Bound("R", 1)+1)
	second := verif.Choice("second", verif.Bound("F2", 0)*nFaults+1)
	reconnect := verif.Choice("noreconnect", 2) == 0
	st := newStats()
	l := verif.ListenWS()
	go faultyPeer(l, st, kind, pos, failDials, second)

	opts := []jsonrpc.Option{jsonrpc.WithReconnectBackoff(time.Millisecond, 5*time.Millisecond)}
	if !reconnect {
		// options are independent of one another: their order does not matter
		if verif.Bool("noreconnect_option_first") {
			opts = append([]jsonrpc.Option{jsonrpc.WithNoReconnect()}, opts...)
		} else {
			opts = append(opts, jsonrpc.WithNoReconnect())
		}
	}
	var c C
	closer, err := jsonrpc.NewMergeClient(context.Background(), l.URL(), "NS", []interface{}{&c}, nil, opts...)
	verif.Assert(err == nil, "client-created")

	tokA, tokB := verif.Int("tokA"), verif.Int("tokB")
	verif.Assume(tokA != tokB && tokA != 777 && tokB != 777)
	var a, b outcome
	go call(c.Echo, tokA, &a)
	go func() {
		verif.AtStep("b_at", verif.Bound("steps", 40))
		call(c.Echo, tokB, &b)
	}()
	verif.Quiesce()
	verif.Assert(a.returns == 1, "in-flight-call-returns")
	verif.Assert(b.returns == 1, "window-call-returns")
	verif.Assert(a.err != nil || a.val == tokA, "in-flight-call-own-result-or-error")
	verif.Assert(b.err != nil || b.val == tokB, "window-call-own-result-or-error")
	verif.Assert(st.frames[tokA] <= 1 && st.frames[tokB] <= 1, "at-most-one-request-frame-per-call")
	verif.Assert(a.err != nil || st.execs[tokA] == 1, "answered-call-executed-exactly-once")
	verif.Assert(b.err != nil || st.execs[tokB] == 1, "answered-call-executed-exactly-once")

	// probe after the dust has settled
	var p outcome
	go call(c.Echo, 777, &p)
	verif.Quiesce()
	verif.Assert(p.returns == 1, "probe-returns")
	if reconnect {
		verif.Assert(p.err == nil && p.val == 777, "reconnecting-client-heals")
	} else {
		verif.Assert(p.err != nil, "no-reconnect-client-fails-fast")
		verif.Assert(l.Dials() == 1, "no-reconnect-client-never-redials")
	}
	verif.Assert(verif.RedialsWithoutBackoff() == 0, "every-redial-is-preceded-by-a-backoff-sleep")
	closer()
	verif.Quiesce()
	if verif.LeftoverLib() != 0 {
		// not part of C03: recorded as an observation only (see DESIGN.md, unclaimed observations)
		verif.Note("library goroutine left after close: " + verif.LeftoverDesc())
	}
	verif.Reach("faults-done")
}

// HarnessRetry (C05/C04): a retry-tagged call in flight at the fault eventually
// returns the genuine result; an untagged one returns the connection error (typed
// when error mapping is on); the library re-sends only the tagged call.
func HarnessRetry() {
	kind := verif.Choice("fault", nFaults)
	failDials := verif.Choice("faildials", verif.Bound("R", 1)+1)
	withErrors := verif.Bool("witherrors")
	st := newStats()
	l := verif.ListenWS()
	go faultyPeer(l, st, kind, 1, failDials, 0) // fault after the first request was read, before any answer

	opts := []jsonrpc.Option{jsonrpc.WithReconnectBackoff(time.Millisecond, 5*time.Millisecond)}
	if withErrors {
		opts = append(opts, jsonrpc.WithErrors(jsonrpc.NewErrors()))
	}
	var c C
	closer, err := jsonrpc.NewMergeClient(context.Background(), l.URL(), "NS", []interface{}{&c}, nil, opts...)
	verif.Assert(err == nil, "client-created")
	tok := verif.Int("tok")
	verif.Assume(tok != 777)
	tagged := verif.Bool("tagged")
	var a outcome
	shape := 0
	if tagged {
		go call(c.Retry, tok, &a)
	} else if verif.Bool("explicit_false_tag") {
		go call(c.NoRetry, tok, &a)
	} else {
		// every signature shape of an untagged function behaves alike: the shape decides only how
		// the failure is reported (error result, or the zero value when there is none)
		shape = verif.Choice("shape", 4)
		switch shape {
		case 0:
			go call(c.Echo, tok, &a)
		case 1:
			go call(func(_ context.Context, t int64) (int64, error) { return c.NoCtx(t) }, tok, &a)
		case 2:
			go call(func(_ context.Context, t int64) (int64, error) { return c.Plain(t), errNoErrorResult }, tok, &a)
		case 3:
			go call(func(ctx context.Context, t int64) (int64, error) { return c.PlainCtx(ctx, t), errNoErrorResult }, tok, &a)
		}
	}
	verif.Quiesce()
	verif.Assert(a.returns == 1, "call-returns")
	if shape >= 2 {
		verif.Class("shape=no-error-result")
		verif.Assert(a.val == 0, "function-without-error-result-returns-zero-on-connection-loss")
		verif.Assert(st.frames[tok] == 1, "untagged-call-never-resent")
	} else if tagged {
		verif.Assert(a.err == nil && a.val == tok, "retry-tagged-call-rides-out-the-outage")
		verif.Assert(st.frames[tok] == 2, "retry-resends-exactly-once-per-lost-attempt")
	} else {
		verif.Assert(a.err != nil, "untagged-call-surfaces-connection-error")
		verif.Assert(st.frames[tok] == 1, "untagged-call-never-resent")
		if a.err != nil {
			_, typed := a.err.(*jsonrpc.RPCConnectionError)
			verif.Assert(typed == withErrors, "typed-connection-error-iff-error-mapping")
		}
	}
	verif.Assert(l.Dials() == 2+failDials, "one-redial-per-attempt")
	verif.Assert(verif.RedialsWithoutBackoff() == 0, "every-redial-is-preceded-by-a-backoff-sleep")
	var p outcome
	go call(c.Echo, 777, &p)
	verif.Quiesce()
	verif.Assert(p.returns == 1 && p.err == nil && p.val == 777, "client-heals-without-application-action")
	closer()
	verif.Quiesce()
	verif.Reach("retry-done")
}

// HarnessNotify (C04): a notify-tagged call carries no id, is delivered exactly
// once on a healthy link, returns without waiting for the server and never gets a response.
func HarnessNotify() {
	st := newStats()
	l := verif.ListenWS()
	gotID := false
	go func() {
		verif.Daemon()
		pc := l.Accept()
		for {
			b, ok := pc.Recv()
			if !ok {
				return
			}
			var r wireReq
			if json.Unmarshal(b, &r) != nil {
				continue
			}
			tok := tokenOf(r)
			if r.ID != nil && string(r.ID) != "null" {
				gotID = true
			}
			st.noID[tok]++
			// a (wrong) server that answers notifications must not confuse the client
			if verif.Bound("answer_notifications", 0) == 1 {
				pc.Send([]byte(`{"jsonrpc":"2.0","id":null,"result":1}`))
			}
		}
	}()
	var c C
	closer, err := jsonrpc.NewMergeClient(context.Background(), l.URL(), "NS", []interface{}{&c}, nil)
	verif.Assert(err == nil, "client-created")
	tok := verif.Int("tok")
	returned := 0
	var nerr error
	go func() {
		nerr = c.Note(tok)
		returned++
	}()
	verif.Quiesce()
	verif.Assert(returned == 1 && nerr == nil, "notify-returns-without-response")
	verif.Assert(st.noID[tok] == 1, "notify-delivered-exactly-once")
	verif.Assert(!gotID, "notify-carries-no-id")
	// a field tagged notify:"false" is an ordinary call: it carries an id and waits for its response
	nn := 0
	go func() { c.NotNotify(tok); nn++ }()
	verif.Quiesce()
	verif.Assert(gotID, "notify-false-is-an-ordinary-call-with-id")
	verif.Assert(nn == 0, "notify-false-waits-for-its-response")
	closer()
	verif.Quiesce()
	verif.Reach("notify-done")
}

// ---- HTTP: the library must not opt in to transport-level re-sending ----

// replayTransport models net/http.Transport's documented replay rule: when a
// request on a reused connection fails before any response byte arrives, the
// transport re-sends it iff the request is replayable; a POST is replayable only
// if it carries an Idempotency-Key / X-Idempotency-Key header (and a rewindable body).
type replayTransport struct {
	h        http.Handler
	cutAfter bool // the connection is cut after the handler ran, before the response
	sends    int
}

func (t *replayTransport) serve(r *http.Request, body []byte) *http.Response {
	t.sends++
	r2 := r.WithContext(r.Context())
	r2.Body = io.NopCloser(bytes.NewReader(body))
	rec := &hx.Recorder{Hdr: http.Header{}}
	t.h.ServeHTTP(rec, r2)
	st := rec.Status
	if st == 0 {
		st = 200
	}
	return &http.Response{StatusCode: st, Status: http.StatusText(st), Header: rec.Hdr, Body: io.NopCloser(&rec.Buf), Request: r}
}

func (t *replayTransport) RoundTrip(r *http.Request) (*http.Response, error) {
	body, _ := io.ReadAll(r.Body)
	resp := t.serve(r, body)
	if !t.cutAfter {
		return resp, nil
	}
	t.cutAfter = false
	replayable := r.Header.Get("Idempotency-Key") != "" || r.Header.Get("X-Idempotency-Key") != "" || r.Method == "GET" || r.Method == "HEAD"
	if replayable {
		return t.serve(r, body), nil
	}
	return nil, errors.New("EOF")
}

type HH struct{ execs map[int64]int }

func (h *HH) Echo(ctx context.Context, tok int64) (int64, error) { h.execs[tok]++; return tok, nil }
func (h *HH) Note(tok int64) error                               { h.execs[tok]++; return nil }

// HarnessHTTPAtMostOnce: over HTTP a connection cut after the handler ran must
// surface as an error to the caller, never as a silent second execution.
func HarnessHTTPAtMostOnce() {
	h := &HH{execs: map[int64]int{}}
	srv := jsonrpc.NewServer()
	srv.Register("NS", h)
	tr := &replayTransport{h: srv}
	var c C
	closer, err := jsonrpc.NewMergeClient(context.Background(), "http://server/rpc", "NS", []interface{}{&c}, nil,
		jsonrpc.WithHTTPClient(&http.Client{Transport: tr}))
	verif.Assert(err == nil, "client-created")
	defer closer()
	warm := verif.Int("warm")
	_, werr := c.Echo(context.Background(), warm) // a first call so that the connection is a reused one
	verif.Assert(werr == nil, "warm-up-call")
	tok := verif.Int("tok")
	verif.Assume(tok != warm && tok+1 != warm)
	tr.cutAfter = verif.Bool("cut")
	tagged := verif.Bool("retry_tagged")
	var v int64
	var cerr error
	if tagged {
		v, cerr = c.Retry(context.Background(), tok)
	} else {
		v, cerr = c.Echo(context.Background(), tok)
	}
	verif.Assert(h.execs[tok] <= 1, "at-most-one-execution-over-http")
	if cerr == nil {
		verif.Assert(v == tok && h.execs[tok] == 1, "answered-call-executed-exactly-once")
	}
	nerr := c.Note(tok + 1)
	verif.Assert(nerr == nil, "notification-returns-nil")
	verif.Assert(h.execs[tok+1] <= 1, "notification-at-most-once")
	verif.Reach("http-at-most-once-done")
}

// NH is a small real handler for the notification harness.
type NH struct {
	mu   sync.Mutex
	runs map[string]int
}

func (h *NH) count(k string) {
	h.mu.Lock()
	h.runs[k]++
	h.mu.Unlock()
}
func (h *NH) Ok(a int64) int64 { h.count("ok"); return a }
func (h *NH) Boom(a int64)     { h.count("boom"); panic("boom") }

// HarnessFailingNotifications (C04): a notification never yields a response —
// also when it fails (unknown method, wrong arity, undecodable argument,
// panicking handler). After each such notification the next frame the peer
// sees is the answer to its own later id-bearing request; a handler that did
// start ran exactly once.
func HarnessFailingNotifications() {
	h := &NH{runs: map[string]int{}}
	srv := jsonrpc.NewServer()
	srv.Register("N", h)
	pc := verif.DialRaw(srv, nil)
	notifs := []string{
		`{"jsonrpc":"2.0","method":"N.Ok","params":[1]}`,
		`{"jsonrpc":"2.0","method":"N.Nope","params":[1]}`,
		`{"jsonrpc":"2.0","method":"N.Ok","params":[1,2]}`,
		`{"jsonrpc":"2.0","method":"N.Ok","params":["x"]}`,
		`{"jsonrpc":"2.0","method":"N.Boom","params":[1]}`,
		`{"jsonrpc":"2.0","id":null,"method":"N.Boom","params":[1]}`,
	}
	k := verif.Choice("notification", len(notifs))
	pc.Send([]byte(notifs[k]))
	verif.Quiesce()
	pc.Send([]byte(`{"jsonrpc":"2.0","id":77,"method":"N.Ok","params":[5]}`))
	b, ok := pc.Recv()
	verif.Assert(ok, "connection-stays-up")
	var r struct {
		ID     interface{} `json:"id"`
		Result *int64      `json:"result"`
	}
	verif.Assert(json.Unmarshal(b, &r) == nil, "frame-is-json")
	id, _ := r.ID.(float64)
	verif.Assert(id == 77 && r.Result != nil && *r.Result == 5, "a-notification-yields-no-response-frame")
	h.mu.Lock()
	if k == 4 || k == 5 {
		verif.Assert(h.runs["boom"] == 1, "notification-handler-ran-exactly-once")
	}
	wantOk := 1
	if k == 0 {
		wantOk = 2
	}
	verif.Assert(h.runs["ok"] == wantOk, "only-well-formed-notifications-run-their-handler")
	h.mu.Unlock()
	pc.CloseGraceful()
	verif.Quiesce()
	verif.Reach("failing-notifications-done")
}

// HarnessConcurrentSameMethod (C04): two calls of one method with different
// arguments are served concurrently on one connection. Each token is executed
// exactly once and each caller gets the answer to its own token; the server
// shares no per-call state between them (race monitor on).
func HarnessConcurrentSameMethod() {
	h := &NH{runs: map[string]int{}}
	srv := jsonrpc.NewServer()
	srv.Register("N", h)
	pc := verif.DialRaw(srv, nil)
	a, b := verif.Int("a"), verif.Int("b")
	verif.Assume(a != b)
	ra, _ := json.Marshal(map[string]interface{}{"jsonrpc": "2.0", "id": 1, "method": "N.Ok", "params": []interface{}{a}})
	rb, _ := json.Marshal(map[string]interface{}{"jsonrpc": "2.0", "id": 2, "method": "N.Ok", "params": []interface{}{b}})
	pc.Send(ra)
	pc.Send(rb)
	for i := 0; i < 2; i++ {
		m, ok := pc.Recv()
		verif.Assert(ok, "connection-stays-up")
		var r struct {
			ID     float64 `json:"id"`
			Result *int64  `json:"result"`
		}
		verif.Assert(json.Unmarshal(m, &r) == nil && r.Result != nil, "reply-is-a-result")
		if r.Result != nil {
			if r.ID == 1 {
				verif.Assert(*r.Result == a, "first-call-answered-with-its-own-token")
			} else {
				verif.Assert(r.ID == 2 && *r.Result == b, "second-call-answered-with-its-own-token")
			}
		}
	}
	verif.Quiesce()
	h.mu.Lock()
	verif.Assert(h.runs["ok"] == 2, "each-call-executed-exactly-once")
	h.mu.Unlock()
	if n := verif.Races(); n != 0 {
		verif.Class("race=" + verif.RaceDesc())
		verif.Assert(false, "concurrent-calls-share-no-unsynchronised-state")
	}
	pc.CloseGraceful()
	verif.Quiesce()
	verif.Reach("concurrent-same-method-done")
}
