// Package c14: concurrent writers never corrupt or interleave WebSocket messages.
package c14

import (
	"context"
	"encoding/json"
	"time"

	jsonrpc "github.com/filecoin-project/go-jsonrpc"

	"gjvharness/verif"
)

type H struct{ release chan struct{} }

func (h *H) Unary(ctx context.Context, a int64) (int64, error) { return a + 1, nil }
func (h *H) Slow(ctx context.Context, a int64) (int64, error) {
	<-h.release
	return a, nil
}
func (h *H) Stream(ctx context.Context, n int) (<-chan int64, error) {
	out := make(chan int64)
	go func() {
		defer close(out)
		for i := 0; i < n; i++ {
			select {
			case out <- int64(i):
			case <-ctx.Done():
				return
			}
		}
	}()
	return out, nil
}

type anyFrame struct {
	Jsonrpc string          `json:"jsonrpc"`
	ID      interface{}     `json:"id"`
	Method  string          `json:"method"`
	Result  json.RawMessage `json:"result"`
}

func monitors(tag string) {
	verif.Assert(!verif.Crashed(), tag+"no-concurrent-write-panic")
	if n := verif.UnlockedWrites(); n != 0 {
		verif.Class("unlocked=" + verif.UnlockedWriteDesc())
		verif.Assert(false, tag+"every-write-under-the-write-lock")
	}
	if n := verif.Races(); n != 0 {
		verif.Class("race=" + verif.RaceDesc())
		verif.Assert(false, tag+"no-unsynchronised-connection-state-access")
	}
}

// HarnessServerWriters: responses through the lazy writer, channel registration
// replies, channel values and closes, and pings all write on one server connection.
func HarnessServerWriters() {
	h := &H{release: make(chan struct{})}
	srv := jsonrpc.NewServer(jsonrpc.WithServerPingInterval(time.Second))
	srv.Register("H", h)
	pc := verif.DialRaw(srv, nil)
	pc.Send([]byte(`{"jsonrpc":"2.0","id":1,"method":"H.Stream","params":[2]}`))
	pc.Send([]byte(`{"jsonrpc":"2.0","id":2,"method":"H.Unary","params":[5]}`))
	pc.Send([]byte(`{"jsonrpc":"2.0","id":3,"method":"H.Slow","params":[6]}`))
	pc.Send([]byte(`{"jsonrpc":"2.0","id":4,"method":"H.Unary","params":[7]}`))
	go func() {
		verif.AtStep("release_at", verif.Bound("steps", 20))
		close(h.release)
	}()
	// expected data frames: stream response + 2 values + close, two unary responses, one slow response
	want := 4 + 2 + 1
	got := 0
	for got < want {
		b, ok := pc.Recv()
		verif.Assert(ok, "connection-stays-up")
		if !ok {
			break
		}
		var f anyFrame
		verif.Assert(json.Unmarshal(b, &f) == nil && f.Jsonrpc == "2.0", "every-message-is-one-complete-json-rpc-frame")
		// and it says what its own call produced: concurrent calls of one method do not mix their arguments
		if id, ok := f.ID.(float64); ok && f.Method == "" {
			var r int64
			switch id {
			case 2:
				verif.Assert(json.Unmarshal(f.Result, &r) == nil && r == 6, "response-carries-its-own-calls-result")
			case 3:
				verif.Assert(json.Unmarshal(f.Result, &r) == nil && r == 6, "response-carries-its-own-calls-result")
			case 4:
				verif.Assert(json.Unmarshal(f.Result, &r) == nil && r == 8, "response-carries-its-own-calls-result")
			}
		}
		got++
	}
	monitors("")
	pc.CloseGraceful()
	verif.Quiesce()
	verif.Reach("server-writers-done")
}

type C struct {
	Echo func(ctx context.Context, tok int64) (int64, error)
}

type wireReq struct {
	Jsonrpc string            `json:"jsonrpc"`
	ID      json.RawMessage   `json:"id"`
	Method  string            `json:"method"`
	Params  []json.RawMessage `json:"params"`
}

// HarnessClientWriters: two callers, a cancellation, pings and a reconnect
// (connection swap) all write on one client connection.
func HarnessClientWriters() {
	l := verif.ListenWS()
	fault := verif.Bound("onlyfault", 0) == 1 || verif.Bool("fault")
	go func() {
		verif.Daemon()
		first := true
		for {
			pc := l.Accept()
			n := 0
			for {
				b, ok := pc.Recv()
				if !ok {
					break
				}
				var r wireReq
				verif.Assert(json.Unmarshal(b, &r) == nil && r.Jsonrpc == "2.0", "every-message-is-one-complete-json-rpc-frame")
				if r.ID == nil || r.Method != "NS.Echo" {
					continue
				}
				n++
				if first && fault && n == 1 {
					pc.Abort()
					break
				}
				rb, _ := json.Marshal(map[string]interface{}{"jsonrpc": "2.0", "id": r.ID, "result": r.Params[0]})
				pc.Send(rb)
			}
			first = false
		}
	}()
	var c C
	closer, err := jsonrpc.NewMergeClient(context.Background(), l.URL(), "NS", []interface{}{&c}, nil,
		jsonrpc.WithPingInterval(100*time.Millisecond), jsonrpc.WithTimeout(time.Second),
		jsonrpc.WithReconnectBackoff(time.Millisecond, 5*time.Millisecond))
	verif.Assert(err == nil, "client-created")
	ctx, cancel := context.WithCancel(context.Background())
	ret := 0
	go func() { c.Echo(ctx, 1); ret++ }()
	go func() { c.Echo(context.Background(), 2); ret++ }()
	go func() {
		verif.AtStep("cancel_at", verif.Bound("steps", 20))
		cancel()
	}()
	verif.Quiesce()
	c.Echo(context.Background(), 3)
	monitors("")
	closer()
	verif.Quiesce()
	verif.Assert(ret == 2, "calls-return")
	monitors("after-close-")
	verif.Reach("client-writers-done")
}

type RevImpl struct{}

func (r *RevImpl) Big(ctx context.Context, a int64) (int64, error) { return a + 1, nil }

// HarnessCloseDuringWrite: the peer reverse-calls into a client; the client's
// closer is invoked at every instant, in particular while the response is between
// "writer acquired" and "flushed". The response is either delivered whole or not
// at all; a close frame never cuts a message in two.
func HarnessCloseDuringWrite() {
	l := verif.ListenWS()
	var frames [][]byte
	go func() {
		verif.Daemon()
		pc := l.Accept()
		pc.Send([]byte(`{"jsonrpc":"2.0","id":1,"method":"rev.Big","params":[41]}`))
		for {
			b, ok := pc.Recv()
			if !ok {
				return
			}
			frames = append(frames, b)
		}
	}()
	var c C
	closer, err := jsonrpc.NewMergeClient(context.Background(), l.URL(), "NS", []interface{}{&c}, nil,
		jsonrpc.WithClientHandler("rev", &RevImpl{}))
	verif.Assert(err == nil, "client-created")
	go func() {
		verif.AtStep("close_at", verif.Bound("steps", 30))
		closer()
	}()
	verif.Quiesce()
	for _, b := range frames {
		var f anyFrame
		verif.Assert(json.Unmarshal(b, &f) == nil && f.Jsonrpc == "2.0", "every-message-is-one-complete-json-rpc-frame")
	}
	verif.Assert(verif.TornMessages() == 0, "close-frame-never-tears-a-message")
	monitors("")
	verif.Reach("close-during-write-done")
}

type CSub struct {
	Echo func(ctx context.Context, tok int64) (int64, error)
	Sub  func(ctx context.Context) (<-chan int64, error)
}

// HarnessCancelVsCall: on one client connection the cancellation of an open
// subscription (written by its own goroutine) and new calls (written by the
// connection loop) are issued at arbitrary instants relative to one another.
// The peer receives each of them as one complete frame with exactly the content
// that was sent: one cancel notification naming the subscription's request, and
// every call with its own token.
func HarnessCancelVsCall() {
	l := verif.ListenWS()
	var frames []wireReq
	bad := 0
	go func() {
		verif.Daemon()
		pc := l.Accept()
		for {
			b, ok := pc.Recv()
			if !ok {
				return
			}
			var r wireReq
			if json.Unmarshal(b, &r) != nil || r.Jsonrpc != "2.0" {
				bad++
				continue
			}
			frames = append(frames, r)
			switch r.Method {
			case "NS.Sub":
				rb, _ := json.Marshal(map[string]interface{}{"jsonrpc": "2.0", "id": r.ID, "result": 1})
				pc.Send(rb)
			case "NS.Echo":
				rb, _ := json.Marshal(map[string]interface{}{"jsonrpc": "2.0", "id": r.ID, "result": r.Params[0]})
				pc.Send(rb)
			}
		}
	}()
	var c CSub
	closer, err := jsonrpc.NewMergeClient(context.Background(), l.URL(), "NS", []interface{}{&c}, nil, jsonrpc.WithNoReconnect())
	verif.Assert(err == nil, "client-created")
	sctx, cancelSub := context.WithCancel(context.Background())
	ch, serr := c.Sub(sctx)
	verif.Assert(serr == nil && ch != nil, "subscription-established")
	go func() {
		for range ch {
		}
	}()
	verif.Quiesce()
	n := verif.Bound("N", 2)
	toks := make([]int64, n)
	rets := make([]int, n)
	for i := 0; i < n; i++ {
		i := i
		toks[i] = verif.Int("tok" + string(rune('0'+i)))
		go func() {
			verif.AtStep("call_at"+string(rune('0'+i)), verif.Bound("steps", 8))
			v, err := c.Echo(context.Background(), toks[i])
			if err == nil && v == toks[i] {
				rets[i]++
			}
		}()
	}
	go func() {
		verif.AtStep("cancel_at", verif.Bound("steps", 8))
		cancelSub()
	}()
	verif.Quiesce()
	verif.Assert(bad == 0, "every-message-is-one-complete-json-rpc-frame")
	subID := ""
	cancels, echoes := 0, 0
	for _, f := range frames {
		switch f.Method {
		case "NS.Sub":
			subID = string(f.ID)
		case "xrpc.cancel":
			cancels++
			verif.Assert(len(f.Params) == 1 && string(f.Params[0]) == subID, "cancel-frame-intact")
		case "NS.Echo":
			var t int64
			ok := len(f.Params) == 1 && json.Unmarshal(f.Params[0], &t) == nil
			found := false
			for _, want := range toks {
				if ok && t == want {
					found = true
				}
			}
			verif.Assert(found, "call-frame-intact")
			echoes++
		default:
			verif.Assert(false, "only-frames-that-were-sent")
		}
	}
	verif.Assert(cancels == 1, "exactly-one-cancel-frame")
	verif.Assert(echoes == n, "every-call-frame-arrives")
	for i := 0; i < n; i++ {
		verif.Assert(rets[i] == 1, "every-call-completes-with-its-own-result")
	}
	monitors("")
	closer()
	verif.Quiesce()
	verif.Reach("cancel-vs-call-done")
}

// HarnessPeerPings: the peer sends WebSocket pings at arbitrary instants while
// the server is writing responses and channel values. Whatever the library
// does in reaction to a ping is serialised with its other writes: every data
// message stays complete, no write bypasses the write lock.
func HarnessPeerPings() {
	h := &H{release: make(chan struct{})}
	srv := jsonrpc.NewServer(jsonrpc.WithServerPingInterval(time.Second))
	srv.Register("H", h)
	pc := verif.DialRaw(srv, nil)
	pc.Send([]byte(`{"jsonrpc":"2.0","id":1,"method":"H.Stream","params":[1]}`))
	pc.Send([]byte(`{"jsonrpc":"2.0","id":2,"method":"H.Unary","params":[5]}`))
	go func() {
		verif.AtStep("ping_at", verif.Bound("steps", 12))
		pc.SendPing()
		verif.AtStep("ping2_at", 2)
		pc.SendPing()
	}()
	want := 2 + 1 + 1 // two responses, one value, one close
	for got := 0; got < want; got++ {
		b, ok := pc.Recv()
		verif.Assert(ok, "connection-stays-up")
		if !ok {
			break
		}
		var f anyFrame
		verif.Assert(json.Unmarshal(b, &f) == nil && f.Jsonrpc == "2.0", "every-message-is-one-complete-json-rpc-frame")
	}
	verif.Quiesce()
	monitors("")
	verif.Assert(verif.TornMessages() == 0, "control-frames-never-tear-a-message")
	pc.CloseGraceful()
	verif.Quiesce()
	verif.Reach("peer-pings-done")
}

// HarnessStalledThenDrained: the peer does not read for a while (bounded
// connection capacity: writers queue up behind a stalled write; any armed timer
// may fire meanwhile), then drains everything. It finds exactly one complete
// response per request and nothing else — no empty or partial message.
func HarnessStalledThenDrained() {
	h := &H{release: make(chan struct{})}
	srv := jsonrpc.NewServer()
	srv.Register("H", h)
	pc := verif.DialRaw(srv, nil)
	const n = 3
	for i := 1; i <= n; i++ {
		b, _ := json.Marshal(map[string]interface{}{"jsonrpc": "2.0", "id": i, "method": "H.Unary", "params": []interface{}{10 * i}})
		pc.Send(b)
	}
	verif.Quiesce() // responses pile up behind the first one that cannot be flushed
	seen := map[float64]int{}
	for i := 0; i < n; i++ {
		b, ok := pc.Recv()
		verif.Assert(ok, "connection-stays-up")
		if !ok {
			break
		}
		var f anyFrame
		verif.Assert(json.Unmarshal(b, &f) == nil && f.Jsonrpc == "2.0", "every-message-is-one-complete-json-rpc-frame")
		id, _ := f.ID.(float64)
		var r int64
		verif.Assert(json.Unmarshal(f.Result, &r) == nil && r == int64(10*id)+1, "response-carries-its-own-calls-result")
		seen[id]++
	}
	for i := 1; i <= n; i++ {
		verif.Assert(seen[float64(i)] == 1, "exactly-one-response-per-request")
	}
	monitors("")
	pc.CloseGraceful()
	verif.Quiesce()
	verif.Reach("stalled-then-drained-done")
}
