package c14

import (
	"testing"

	"gjvharness/verif"
)

func TestReplay(t *testing.T) {
	verif.ReplayMain(map[string]func(){
		"HarnessCancelVsCall":       HarnessCancelVsCall,
		"HarnessClientWriters":      HarnessClientWriters,
		"HarnessCloseDuringWrite":   HarnessCloseDuringWrite,
		"HarnessPeerPings":          HarnessPeerPings,
		"HarnessServerWriters":      HarnessServerWriters,
		"HarnessStalledThenDrained": HarnessStalledThenDrained,
	})
}
