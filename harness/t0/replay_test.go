package t0

import (
	"testing"

	"gjvharness/verif"
)

func TestReplay(t *testing.T) {
	verif.ReplayMain(map[string]func(){
		"HarnessAbs": HarnessAbs,
		"HarnessOK":  HarnessOK,
	})
}
