package t0

import "gjvharness/verif"

type pt struct{ x, y int64 }

func abs(a int64) int64 {
	if a < 0 {
		return -a
	}
	return a
}

// HarnessAbs: abs(a) >= 0 fails exactly for MinInt64.
func HarnessAbs() {
	a := verif.Int("a")
	r := abs(a)
	verif.Assert(r >= 0, "abs-nonneg")
	verif.Reach("done")
}

func HarnessOK() {
	a := verif.Int("a")
	verif.Assume(a > -100 && a < 100)
	p := &pt{x: a, y: 2}
	m := map[string]int64{"k": p.x * p.y}
	s := verif.String("s", 3)
	if s == "ab" {
		m["k"]++
	}
	verif.Assert(m["k"] <= 2*99+1, "bound")
	verif.Assert(len(s) <= 3, "len")
	verif.Reach("done")
}
