// Package tx: scratch experiments for engine models (not registered as a check).
package tx

import (
	"bytes"
	"encoding/json"
	"fmt"
	"reflect"
	"sync"

	"gjvharness/verif"
)

var pool = sync.Pool{New: func() interface{} { return new(bytes.Buffer) }}

type req struct {
	Method string `json:"method"`
	N      int64  `json:"n"`
}

func enc(v req) []byte {
	b := pool.Get().(*bytes.Buffer)
	defer pool.Put(b)
	b.Reset()
	json.NewEncoder(b).Encode(v)
	return b.Bytes()
}

// HarnessAlias: the first message must survive the encoding of the second (it does not: pooled buffer).
func HarnessAlias() {
	m1 := enc(req{"a", 1})
	m2 := enc(req{"bb", 22})
	_ = m2
	var r req
	err := json.Unmarshal(m1, &r)
	verif.Assert(err == nil && r.Method == "a" && r.N == 1, "m1-intact")
	verif.Reach("done")
}

// HarnessRawReuse: json.RawMessage decoded into the same variable twice overwrites the first content in place.
func HarnessRawReuse() {
	var m json.RawMessage
	json.Unmarshal([]byte(`["first-call",1111]`), &m)
	held := m
	m = m[:0]
	json.Unmarshal([]byte(`["second",2]`), &m)
	verif.Assert(string(held) == `["first-call",1111]`, "held-intact")
	verif.Reach("done")
}

// HarnessReflectSelectNil: reflect.Select on a nil channel never chooses that case.
func HarnessReflectSelectNil() {
	var in chan int
	done := make(chan struct{})
	got := -1
	go func() {
		cases := []reflect.SelectCase{
			{Dir: reflect.SelectRecv, Chan: reflect.ValueOf(done)},
			{Dir: reflect.SelectRecv, Chan: reflect.ValueOf(in)},
		}
		got, _, _ = reflect.Select(cases)
	}()
	verif.Quiesce()
	verif.Assert(got == -1, "select-on-nil-channel-blocks")
	close(done)
	verif.Quiesce()
	verif.Assert(got == 0, "done-chosen")
	verif.Reach("done")
}

// HarnessQuoteJSON: a %q-quoted symbolic string inside hand-written JSON.
func HarnessQuoteJSON() {
	msg := verif.String("msg", 2)
	id, _ := json.Marshal(1)
	var sb bytes.Buffer
	fmt.Fprintf(&sb, "{\"id\":%s,\"m\":%q}\n", id, "x:"+msg)
	var out struct {
		M string `json:"m"`
	}
	err := json.Unmarshal(sb.Bytes(), &out)
	verif.Assert(err == nil && out.M == "x:"+msg, "valid-json")
	verif.Reach("done")
}
