package tx

import (
	"testing"

	"gjvharness/verif"
)

func TestReplay(t *testing.T) {
	verif.ReplayMain(map[string]func(){
		"HarnessAlias":            HarnessAlias,
		"HarnessQuoteJSON":        HarnessQuoteJSON,
		"HarnessRawReuse":         HarnessRawReuse,
		"HarnessReflectSelectNil": HarnessReflectSelectNil,
	})
}
