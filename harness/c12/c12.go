// Package c12: dispatch by formatted name, then alias; bad arity/types never run a handler.
package c12

import (
	"bytes"
	"context"
	"encoding/json"

	jsonrpc "github.com/filecoin-project/go-jsonrpc"

	"gjvharness/verif"
)

type counters struct{ ran string }

type nsA struct {
	c   *counters
	tag string // "A" or "C": the same type is registered under two namespaces
}

func (h *nsA) Foo(ctx context.Context, a int) (int, error) { h.c.ran += h.tag + ".Foo;"; return a, nil }
func (h *nsA) Bar(a int, s string) error                   { h.c.ran += h.tag + ".Bar;"; return nil }

type nsB struct{ c *counters }

func (h *nsB) Foo(ctx context.Context, a int) (int, error) { h.c.ran += "B.Foo;"; return a + 1, nil }
func (h *nsB) Qux() error                                  { h.c.ran += "B.Qux;"; return nil }

type fmtr struct {
	name string
	fn   jsonrpc.MethodNameFormatter
	spec func(ns, m string) string
}

func lowerFirst(m string) string {
	if len(m) == 0 {
		return m
	}
	c := m[0]
	if c >= 'A' && c <= 'Z' {
		c += 'a' - 'A'
	}
	return string([]byte{c}) + m[1:]
}

var formatters = []fmtr{
	{"default", jsonrpc.DefaultMethodNameFormatter, func(ns, m string) string { return ns + "." + m }},
	{"ns+lower", jsonrpc.NewMethodNameFormatter(true, jsonrpc.LowerFirstCharCase), func(ns, m string) string { return ns + "." + lowerFirst(m) }},
	{"nons", jsonrpc.NewMethodNameFormatter(false, jsonrpc.OriginalCase), func(ns, m string) string { return m }},
	{"nons+lower", jsonrpc.NewMethodNameFormatter(false, jsonrpc.LowerFirstCharCase), func(ns, m string) string { return lowerFirst(m) }},
	{"custom", func(ns, m string) string { return ns + "_" + m }, func(ns, m string) string { return ns + "_" + m }},
}

type regd struct{ ns, m, tag string }

type reply struct {
	Jsonrpc string           `json:"jsonrpc"`
	ID      interface{}      `json:"id"`
	Result  *json.RawMessage `json:"result"`
	Error   *struct {
		Code    int    `json:"code"`
		Message string `json:"message"`
	} `json:"error"`
}

// specResolve is the reference resolver: direct formatted name first (later
// registrations overwrite earlier ones under the same formatted name), then alias.
func specResolve(f fmtr, regs []regd, aliases map[string]string, m string) string {
	direct := ""
	for _, r := range regs {
		if f.spec(r.ns, r.m) == m {
			direct = r.tag
		}
	}
	if direct != "" {
		return direct
	}
	if to, ok := aliases[m]; ok {
		for _, r := range regs {
			if f.spec(r.ns, r.m) == to {
				direct = r.tag
			}
		}
	}
	return direct
}

// HarnessDispatch: for every method string, the handler that runs and the
// error code equal the reference resolver.
func HarnessDispatch() {
	fi := verif.Choice("fmt", len(formatters))
	f := formatters[fi]
	c := &counters{}
	srv := jsonrpc.NewServer(jsonrpc.WithServerMethodNameFormatter(f.fn))
	srv.Register("A", &nsA{c, "A"})
	srv.Register("B", &nsB{c})
	srv.Register("C", &nsA{c, "C"}) // same Go type as namespace A, other instance
	regs := []regd{{"A", "Bar", "A.Bar;"}, {"A", "Foo", "A.Foo;"}, {"B", "Foo", "B.Foo;"}, {"B", "Qux", "B.Qux;"}, {"C", "Bar", "C.Bar;"}, {"C", "Foo", "C.Foo;"}}
	aliases := map[string]string{}
	switch verif.Choice("alias", 8) {
	case 5: // an alias whose target is itself only an alias: aliases are not transitive
		aliases["old"] = "al"
		aliases["al"] = f.spec("B", "Foo")
	case 6: // two aliases of the same target, and one pointing at a name that only exists as an alias key
		aliases["al"] = f.spec("A", "Foo")
		aliases["al2"] = f.spec("A", "Foo")
		aliases["al3"] = "al2"
	case 7: // an alias longer than every registered name
		aliases["legacy_endpoint_getFoo"] = f.spec("B", "Foo")
	case 1: // alias to existing
		aliases["al"] = f.spec("B", "Qux")
	case 2: // alias to missing
		aliases["al"] = "nowhere"
	case 3: // alias shadowing a direct name
		aliases[f.spec("A", "Foo")] = f.spec("B", "Qux")
	case 4: // alias with arbitrary name to Foo of B
		aliases[verif.String("aliasname", 3)] = f.spec("B", "Foo")
	}
	for k, v := range aliases {
		srv.AliasMethod(k, v)
	}

	m := verif.String("method", verif.Bound("mlen", 6))
	if len(aliases) > 0 && verif.Bool("call_an_alias_by_name") {
		// (alias names may be longer than the symbolic method strings explored)
		keys := make([]string, 0, len(aliases))
		for k := range aliases {
			keys = append(keys, k)
		}
		for i := 1; i < len(keys); i++ { // (insertion sort: map order differs between runs)
			for j := i; j > 0 && keys[j] < keys[j-1]; j-- {
				keys[j], keys[j-1] = keys[j-1], keys[j]
			}
		}
		m = keys[verif.Choice("which_alias", len(keys))]
	}
	// params that fit Foo: [7]; the arity part is in HarnessArity
	body, _ := json.Marshal(map[string]interface{}{"jsonrpc": "2.0", "id": 1, "method": m, "params": []interface{}{7}})
	var out bytes.Buffer
	srv.HandleRequest(context.Background(), bytes.NewReader(body), &out)

	var rp reply
	err := json.Unmarshal(out.Bytes(), &rp)
	verif.Assert(err == nil, "reply-is-json")
	want := specResolve(f, regs, aliases, m)
	switch want {
	case "":
		verif.Assert(c.ran == "", "unknown-method-runs-nothing")
		verif.Assert(rp.Error != nil && rp.Error.Code == -32601, "unknown-method-code")
	case "A.Foo;", "B.Foo;", "C.Foo;":
		verif.Assert(c.ran == want, "resolved-handler")
		verif.Assert(rp.Error == nil && rp.Result != nil, "resolved-result")
	default: // Bar (2 params) and Qux (0 params) get one param: wrong arity
		verif.Assert(c.ran == "", "wrong-arity-runs-nothing")
		verif.Assert(rp.Error != nil && rp.Error.Code == -32602, "wrong-arity-code")
	}
	verif.Reach("dispatch-done")
}
