package c13

import (
	"testing"

	"gjvharness/verif"
)

func TestReplay(t *testing.T) {
	verif.ReplayMain(map[string]func(){
		"HarnessPanicBatch":       HarnessPanicBatch,
		"HarnessPanicHTTP":        HarnessPanicHTTP,
		"HarnessPanicThenOverlap": HarnessPanicThenOverlap,
		"HarnessPanicWS":          HarnessPanicWS,
	})
}
