// Package c13: a panicking handler fails only its own call.
package c13

import (
	"bytes"
	"context"
	"encoding/json"
	"errors"
	"net/http"
	"strings"

	jsonrpc "github.com/filecoin-project/go-jsonrpc"

	"gjvharness/verif"
)

type custom struct{ A int }

type named struct{ name string }

// String dereferences its receiver: calling it on a nil *named panics (fmt catches that).
func (n *named) String() string { return n.name }

type H struct {
	kind int
	msg  string
	ok   int
}

func (h *H) Boom(a int) (int, error) {
	switch h.kind {
	case 0:
		panic("str:" + h.msg)
	case 1:
		panic(errors.New("err:" + h.msg))
	case 2:
		panic(custom{7})
	case 3:
		var m map[string]int
		m["x"] = a
	case 4:
		var p *custom
		return p.A, nil
	case 5:
		s := []int{1}
		return s[a], nil // a is constrained to be out of range
	case 6:
		var e error
		return 0, errors.New(e.Error())
	case 7:
		panic(nil)
	case 8:
		var n *named
		panic(n) // a payload whose String method itself panics
	case 9:
		panic(http.ErrAbortHandler) // a sentinel some recover middlewares treat specially
	}
	return 0, nil
}

func (h *H) BoomNotif(a int) { panic("notif:" + h.msg) }

func (h *H) Fine(a int) int { h.ok++; return a * 2 }

type reply struct {
	ID     interface{} `json:"id"`
	Result *int64      `json:"result"`
	Error  *struct {
		Code    int    `json:"code"`
		Message string `json:"message"`
	} `json:"error"`
}

func call(srv *jsonrpc.RPCServer, method string, id interface{}, x int64) (reply, int, bool) {
	m := map[string]interface{}{"jsonrpc": "2.0", "method": method, "params": []interface{}{x}}
	if id != nil {
		m["id"] = id
	}
	body, _ := json.Marshal(m)
	var out bytes.Buffer
	srv.HandleRequest(context.Background(), bytes.NewReader(body), &out)
	var r reply
	err := json.Unmarshal(out.Bytes(), &r)
	return r, out.Len(), err == nil
}

// HarnessPanicHTTP: every panic payload kind, request/notification; then a healthy call.
func HarnessPanicHTTP() {
	h := &H{kind: verif.Choice("kind", 10), msg: verif.String("msg", 3)}
	srv := jsonrpc.NewServer()
	srv.Register("H", h)
	x := verif.Int("x")
	if h.kind == 5 {
		verif.Assume(x < 0 || x >= 1)
	}
	if verif.Bool("notification") {
		_, n, _ := call(srv, "H.BoomNotif", nil, x)
		_ = n // an error reply to a single rejected notification is tolerated (see C09)
	} else {
		r, _, ok := call(srv, "H.Boom", 1, x)
		verif.Assert(ok, "panic-reply-is-json")
		verif.Assert(r.Error != nil && r.Result == nil, "panic-yields-error")
		if r.Error != nil {
			verif.Assert(strings.Contains(r.Error.Message, "panic"), "error-mentions-panic")
			switch h.kind {
			case 0:
				verif.Assert(strings.Contains(r.Error.Message, "str:"+h.msg), "error-carries-panic-text")
			case 1:
				verif.Assert(strings.Contains(r.Error.Message, "err:"+h.msg), "error-carries-panic-text")
			}
		}
		id, _ := r.ID.(float64)
		verif.Assert(id == 1, "panic-reply-id")
	}
	verif.Assert(!verif.Crashed(), "process-survives")
	// the server keeps working
	r2, _, ok2 := call(srv, "H.Fine", 2, x)
	verif.Assert(ok2 && r2.Error == nil && r2.Result != nil && *r2.Result == x*2, "subsequent-call-unaffected")
	verif.Assert(h.ok == 1, "subsequent-call-ran-once")
	verif.Reach("panic-http-done")
}

// HarnessPanicBatch: an HTTP batch of three elements, each an ordinary call, a
// panicking call, a panicking notification or an ordinary notification. The
// panic of one element is confined to that element: the reply is one JSON array
// with exactly one response per id-bearing element, in order; ordinary calls get
// their results, panicking calls an error that mentions the panic.
func HarnessPanicBatch() {
	h := &H{kind: 0, msg: verif.String("msg", 2)}
	srv := jsonrpc.NewServer()
	srv.Register("H", h)
	x := verif.Int("x")
	const n = 3
	kinds := make([]int, n) // 0 Fine call, 1 Boom call, 2 Boom notification, 3 Fine notification
	var elems []interface{}
	var idBearing []int
	panics := 0
	for i := 0; i < n; i++ {
		kinds[i] = verif.Choice("elem"+string(rune('0'+i)), 4)
		m := map[string]interface{}{"jsonrpc": "2.0", "params": []interface{}{x}}
		switch kinds[i] {
		case 0:
			m["method"], m["id"] = "H.Fine", 10+i
		case 1:
			m["method"], m["id"] = "H.Boom", 10+i
			panics++
		case 2:
			m["method"] = "H.BoomNotif"
			panics++
		case 3:
			m["method"] = "H.Fine"
		}
		if kinds[i] < 2 {
			idBearing = append(idBearing, i)
		}
		elems = append(elems, m)
	}
	verif.Assume(panics > 0)
	body, _ := json.Marshal(elems)
	var out bytes.Buffer
	srv.HandleRequest(context.Background(), bytes.NewReader(body), &out)
	verif.Assert(!verif.Crashed(), "process-survives")
	if len(idBearing) == 0 {
		verif.Assert(len(bytes.TrimSpace(out.Bytes())) == 0, "batch-of-notifications-gets-no-reply")
	} else {
		var rs []reply
		verif.Assert(json.Unmarshal(out.Bytes(), &rs) == nil, "batch-reply-is-one-json-array")
		verif.Assert(len(rs) == len(idBearing), "one-response-per-id-bearing-element")
		for k, i := range idBearing {
			if k >= len(rs) {
				break
			}
			id, _ := rs[k].ID.(float64)
			verif.Assert(id == float64(10+i), "responses-in-request-order")
			if kinds[i] == 0 {
				verif.Assert(rs[k].Error == nil && rs[k].Result != nil && *rs[k].Result == x*2, "sibling-call-in-the-batch-unaffected")
			} else {
				verif.Assert(rs[k].Error != nil && strings.Contains(rs[k].Error.Message, "panic"), "panicking-element-gets-error-mentioning-panic")
			}
		}
	}
	r2, _, ok2 := call(srv, "H.Fine", 2, x)
	verif.Assert(ok2 && r2.Error == nil && r2.Result != nil && *r2.Result == x*2, "subsequent-call-unaffected")
	verif.Reach("panic-batch-done")
}

type C struct {
	Boom     func(a int) (int, error)
	Fine     func(a int) (int, error)
	Slow     func(ctx context.Context, a int) (int, error)
	Sub      func(ctx context.Context) (<-chan int, error)
	BoomSub  func(ctx context.Context) (<-chan int, error)
	BoomLate func(ctx context.Context) (int, error)
}

type WH struct {
	H
	release chan struct{}
}

func (h *WH) Slow(ctx context.Context, a int) (int, error) { <-h.release; return a, nil }

// BoomLate panics in its clean-up path, i.e. after its caller cancelled the call.
func (h *WH) BoomLate(ctx context.Context) (int, error) {
	<-ctx.Done()
	panic("late:" + h.msg)
}

// BoomSub is a channel-returning method that panics before returning its channel.
func (h *WH) BoomSub(ctx context.Context) (<-chan int, error) { panic("sub:" + h.msg) }
func (h *WH) Sub(ctx context.Context) (<-chan int, error) {
	out := make(chan int)
	go func() {
		defer close(out)
		select {
		case out <- 1:
		case <-ctx.Done():
			return
		}
		select {
		case <-h.release:
		case <-ctx.Done():
		}
		select {
		case out <- 2:
		case <-ctx.Done():
		}
	}()
	return out, nil
}

// HarnessPanicWS: over WebSocket, with a sibling call and a sibling stream in
// flight, a panicking handler fails only its own call.
func HarnessPanicWS() {
	h := &WH{H: H{kind: verif.Choice("kind", 10), msg: verif.String("msg", 2)}, release: make(chan struct{})}
	srv := jsonrpc.NewServer()
	srv.Register("H", h)
	url, stop := verif.ServeWS(srv)
	var c C
	closer, err := jsonrpc.NewMergeClient(context.Background(), url, "H", []interface{}{&c}, nil)
	verif.Assert(err == nil, "client-created")
	x := 0
	if h.kind == 5 {
		x = 3
	}
	slowRet, slowVal := 0, 0
	var slowErr error
	go func() { slowVal, slowErr = c.Slow(context.Background(), 7); slowRet++ }()
	ctx, cancel := context.WithCancel(context.Background())
	ch, serr := c.Sub(ctx)
	verif.Assert(serr == nil && ch != nil, "sibling-stream-established")
	var got []int
	chClosed := 0
	go func() {
		for v := range ch {
			got = append(got, v)
		}
		chClosed++
	}()
	if verif.Bool("panic_in_channel_method") {
		bch, berr := c.BoomSub(context.Background())
		verif.Assert(berr != nil && bch == nil, "panicking-channel-method-gets-error")
		if berr != nil {
			verif.Assert(strings.Contains(berr.Error(), "panic"), "error-mentions-panic")
		}
	}
	if verif.Bool("panic_after_cancel") {
		// the handler panics only once its caller has cancelled: the call is still answered
		lctx, lcancel := context.WithCancel(context.Background())
		lret := 0
		var lerr error
		go func() { _, lerr = c.BoomLate(lctx); lret++ }()
		verif.Quiesce()
		lcancel()
		verif.Quiesce()
		verif.Assert(lret == 1 && lerr != nil, "cancelled-then-panicking-call-gets-error")
		verif.Assert(!verif.Crashed(), "process-survives")
	}
	_, perr := c.Boom(x)
	verif.Assert(perr != nil, "panicking-call-gets-error")
	if perr != nil {
		verif.Assert(strings.Contains(perr.Error(), "panic"), "error-mentions-panic")
	}
	verif.Assert(!verif.Crashed(), "process-survives")
	close(h.release)
	verif.Quiesce()
	verif.Assert(slowRet == 1 && slowErr == nil && slowVal == 7, "sibling-call-unaffected")
	verif.Assert(chClosed == 1 && len(got) == 2 && got[0] == 1 && got[1] == 2, "sibling-stream-unaffected")
	v, ferr := c.Fine(4)
	verif.Assert(ferr == nil && v == 8, "later-call-unaffected")
	cancel()
	closer()
	stop()
	verif.Quiesce()
	verif.Reach("panic-ws-done")
}

// gated is a parameter type whose decoder can be held: a call carrying the value 100 waits
// inside the server's argument decoding until the harness opens the gate.
type gated struct{ V int }

var (
	gate        chan struct{}
	gateEntered int
)

func (g gated) MarshalJSON() ([]byte, error) { return json.Marshal(g.V) }
func (g *gated) UnmarshalJSON(b []byte) error {
	if err := json.Unmarshal(b, &g.V); err != nil {
		return err
	}
	if g.V == 100 && gate != nil {
		gateEntered++
		<-gate
	}
	return nil
}

type GH struct {
	H
	gatedRuns, fineRuns int
}

func (h *GH) Gated(a gated) (int, error) { h.gatedRuns++; return a.V + 1, nil }
func (h *GH) Fine2(a int) (int, error)   { h.fineRuns++; return a * 2, nil }

type GC struct {
	Boom  func(int) (int, error)
	Gated func(gated) (int, error)
	Fine2 func(int) (int, error)
}

// HarnessPanicThenOverlap: "every other call, concurrent or subsequent, behaves as if the
// panic had not happened" — after 0–2 panicking calls, two healthy calls of the same arity
// overlap on the server: the first is held between obtaining its argument slots and the end of
// its argument decoding while the second runs to completion. Both get their own results and
// each handler runs once with its own argument.
func HarnessPanicThenOverlap() {
	h := &GH{H: H{kind: verif.Choice("kind", 10), msg: "m"}}
	srv := jsonrpc.NewServer()
	srv.Register("H", h)
	url, stop := verif.ServeWS(srv)
	var c GC
	closer, err := jsonrpc.NewMergeClient(context.Background(), url, "H", []interface{}{&c}, nil)
	verif.Assert(err == nil, "client-created")
	x := 0
	if h.kind == 5 {
		x = 3
	}
	for i := verif.Choice("panics_before", 3); i > 0; i-- {
		_, perr := c.Boom(x)
		verif.Assert(perr != nil, "panicking-call-gets-error")
	}
	verif.Assert(!verif.Crashed(), "process-survives")
	gate = make(chan struct{})
	aRet, aVal := 0, 0
	var aErr error
	go func() { aVal, aErr = c.Gated(gated{100}); aRet++ }()
	verif.Quiesce()
	verif.Assert(gateEntered == 1 && aRet == 0, "first-call-held-in-argument-decoding")
	y := verif.Int("y")
	verif.Assume(y > -1000 && y < 1000)
	bVal, bErr := c.Fine2(int(y))
	verif.Assert(bErr == nil && bVal == int(y)*2, "overlapping-call-after-panic-unaffected")
	close(gate)
	verif.Quiesce()
	verif.Assert(aRet == 1 && aErr == nil && aVal == 101, "held-call-after-panic-unaffected")
	verif.Assert(h.gatedRuns == 1 && h.fineRuns == 1, "each-handler-ran-once")
	verif.Assert(!verif.Crashed(), "process-survives")
	closer()
	stop()
	verif.Quiesce()
	verif.Reach("panic-then-overlap-done")
}
