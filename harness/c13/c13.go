// Package c13: a panicking handler fails only its own call.
package c13

import (
	"bytes"
	"context"
	"encoding/json"
	"errors"
	"strings"

	jsonrpc "github.com/filecoin-project/go-jsonrpc"

	"gjvharness/verif"
)

type custom struct{ A int }

type H struct {
	kind int
	msg  string
	ok   int
}

func (h *H) Boom(a int) (int, error) {
	switch h.kind {
	case 0:
		panic("str:" + h.msg)
	case 1:
		panic(errors.New("err:" + h.msg))
	case 2:
		panic(custom{7})
	case 3:
		var m map[string]int
		m["x"] = a
	case 4:
		var p *custom
		return p.A, nil
	case 5:
		s := []int{1}
		return s[a], nil // a is constrained to be out of range
	case 6:
		var e error
		return 0, errors.New(e.Error())
	case 7:
		panic(nil)
	}
	return 0, nil
}

func (h *H) BoomNotif(a int) { panic("notif:" + h.msg) }

func (h *H) Fine(a int) int { h.ok++; return a * 2 }

type reply struct {
	ID     interface{} `json:"id"`
	Result *int64      `json:"result"`
	Error  *struct {
		Code    int    `json:"code"`
		Message string `json:"message"`
	} `json:"error"`
}

func call(srv *jsonrpc.RPCServer, method string, id interface{}, x int64) (reply, int, bool) {
	m := map[string]interface{}{"jsonrpc": "2.0", "method": method, "params": []interface{}{x}}
	if id != nil {
		m["id"] = id
	}
	body, _ := json.Marshal(m)
	var out bytes.Buffer
	srv.HandleRequest(context.Background(), bytes.NewReader(body), &out)
	var r reply
	err := json.Unmarshal(out.Bytes(), &r)
	return r, out.Len(), err == nil
}

// HarnessPanicHTTP: every panic payload kind, request/notification; then a healthy call.
func HarnessPanicHTTP() {
	h := &H{kind: verif.Choice("kind", 8), msg: verif.String("msg", 3)}
	srv := jsonrpc.NewServer()
	srv.Register("H", h)
	x := verif.Int("x")
	if h.kind == 5 {
		verif.Assume(x < 0 || x >= 1)
	}
	if verif.Bool("notification") {
		_, n, _ := call(srv, "H.BoomNotif", nil, x)
		_ = n // an error reply to a single rejected notification is tolerated (see C09)
	} else {
		r, _, ok := call(srv, "H.Boom", 1, x)
		verif.Assert(ok, "panic-reply-is-json")
		verif.Assert(r.Error != nil && r.Result == nil, "panic-yields-error")
		if r.Error != nil {
			verif.Assert(strings.Contains(r.Error.Message, "panic"), "error-mentions-panic")
			switch h.kind {
			case 0:
				verif.Assert(strings.Contains(r.Error.Message, "str:"+h.msg), "error-carries-panic-text")
			case 1:
				verif.Assert(strings.Contains(r.Error.Message, "err:"+h.msg), "error-carries-panic-text")
			}
		}
		id, _ := r.ID.(float64)
		verif.Assert(id == 1, "panic-reply-id")
	}
	verif.Assert(!verif.Crashed(), "process-survives")
	// the server keeps working
	r2, _, ok2 := call(srv, "H.Fine", 2, x)
	verif.Assert(ok2 && r2.Error == nil && r2.Result != nil && *r2.Result == x*2, "subsequent-call-unaffected")
	verif.Assert(h.ok == 1, "subsequent-call-ran-once")
	verif.Reach("panic-http-done")
}
