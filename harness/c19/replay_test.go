package c19

import (
	"testing"

	"gjvharness/verif"
)

func TestReplay(t *testing.T) {
	verif.ReplayMain(map[string]func(){
		"HarnessAuthHandler": HarnessAuthHandler,
		"HarnessHasPerm":     HarnessHasPerm,
		"HarnessProxy":       HarnessProxy,
		"HarnessProxyShared": HarnessProxyShared,
	})
}
