// Package c19: permission checks (auth.PermissionedProxy, auth.HasPerm, auth.Handler).
package c19

import (
	"context"
	"errors"

	"github.com/filecoin-project/go-jsonrpc/auth"

	"gjvharness/verif"
)

type impl struct {
	nDo, nGet int
	lastArg   int64
}

func (i *impl) Do(ctx context.Context, a int64) error {
	i.nDo++
	i.lastArg = a
	return nil
}

func (i *impl) Get(ctx context.Context, a int64) (int64, error) {
	i.nGet++
	i.lastArg = a
	return a + 1, nil
}

func (i *impl) Fail(ctx context.Context) (string, error) {
	return "partial", errors.New("impl failed")
}

type proxyRead struct {
	Do   func(ctx context.Context, a int64) error          `perm:"read"`
	Get  func(ctx context.Context, a int64) (int64, error) `perm:"write"`
	Fail func(ctx context.Context) (string, error)         `perm:"admin"`
}

var universe = []auth.Permission{"read", "write", "admin"}

func permSet(name string, max int) []auth.Permission {
	n := verif.Choice(name+"_n", max+1)
	out := make([]auth.Permission, n)
	for i := 0; i < n; i++ {
		out[i] = auth.Permission(verif.String(name+"_"+string(rune('0'+i)), 5))
	}
	return out
}

func contains(set []auth.Permission, p auth.Permission) bool {
	for _, x := range set {
		if x == p {
			return true
		}
	}
	return false
}

// HarnessProxy: the wrapped implementation runs iff required ∈ effective set,
// where effective = attached set if one is attached (even empty) else defaults.
func HarnessProxy() {
	maxSet := verif.Bound("set", 2)
	defaults := permSet("def", maxSet)
	attached := verif.Bool("attached")
	var caller []auth.Permission
	ctx := context.Background()
	if attached {
		caller = permSet("caller", maxSet)
		ctx = auth.WithPerm(ctx, caller)
	}
	im := &impl{}
	var px proxyRead
	auth.PermissionedProxy(universe, defaults, im, &px)

	eff := defaults
	if attached {
		eff = caller
	}
	arg := verif.Int("arg")
	switch verif.Choice("method", 3) {
	case 0:
		err := px.Do(ctx, arg)
		want := contains(eff, "read")
		verif.Assert((err == nil) == want, "do-allowed-iff-perm")
		verif.Assert((im.nDo == 1) == want, "do-runs-iff-perm")
		verif.Assert(!want || im.lastArg == arg, "do-arg")
		verif.Assert(im.nGet == 0, "do-no-other")
	case 1:
		v, err := px.Get(ctx, arg)
		want := contains(eff, "write")
		verif.Assert((err == nil) == want, "get-allowed-iff-perm")
		verif.Assert((im.nGet == 1) == want, "get-runs-iff-perm")
		verif.Assert(!want || v == arg+1, "get-value")
		verif.Assert(want || v == 0, "get-zero-on-deny")
		verif.Assert(im.nDo == 0, "get-no-other")
	case 2:
		s, err := px.Fail(ctx)
		want := contains(eff, "admin")
		verif.Assert(err != nil, "fail-error")
		verif.Assert(want == (s == "partial"), "fail-passthrough-iff-perm")
		verif.Assert(want || s == "", "fail-zero-on-deny")
	}
	verif.Reach("proxy-done")
}

// HarnessHasPerm: HasPerm == membership in the effective set, for arbitrary strings.
func HarnessHasPerm() {
	maxSet := verif.Bound("set", 3)
	defaults := permSet("def", maxSet)
	attached := verif.Bool("attached")
	ctx := context.Background()
	eff := defaults
	if attached {
		caller := permSet("caller", maxSet)
		ctx = auth.WithPerm(ctx, caller)
		eff = caller
	}
	// unrelated context values must not interfere
	type otherKey int
	ctx = context.WithValue(ctx, otherKey(0), []auth.Permission{"admin"})
	p := auth.Permission(verif.String("perm", 5))
	verif.Assert(auth.HasPerm(ctx, defaults, p) == contains(eff, p), "hasperm-iff-member")
	verif.Reach("hasperm-done")
}
