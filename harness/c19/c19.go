// Package c19: permission checks (auth.PermissionedProxy, auth.HasPerm, auth.Handler).
package c19

import (
	"context"
	"errors"
	"net/http"
	"net/url"

	"github.com/filecoin-project/go-jsonrpc/auth"

	"gjvharness/verif"
)

type impl struct {
	nDo, nGet int
	lastArg   int64
}

func (i *impl) Do(ctx context.Context, a int64) error {
	i.nDo++
	i.lastArg = a
	return nil
}

func (i *impl) Get(ctx context.Context, a int64) (int64, error) {
	i.nGet++
	i.lastArg = a
	return a + 1, nil
}

func (i *impl) Fail(ctx context.Context) (string, error) {
	return "partial", errors.New("impl failed")
}

type proxyRead struct {
	Do   func(ctx context.Context, a int64) error          `perm:"read"`
	Get  func(ctx context.Context, a int64) (int64, error) `perm:"write"`
	Fail func(ctx context.Context) (string, error)         `perm:"admin"`
}

var universe = []auth.Permission{"read", "write", "admin"}

func permSet(name string, max int) []auth.Permission {
	n := verif.Choice(name+"_n", max+1)
	if n == 0 && verif.Bool(name+"_nil") {
		return nil // an empty set may also be the nil slice
	}
	out := make([]auth.Permission, n)
	for i := 0; i < n; i++ {
		out[i] = auth.Permission(verif.String(name+"_"+string(rune('0'+i)), 5))
	}
	return out
}

func contains(set []auth.Permission, p auth.Permission) bool {
	for _, x := range set {
		if x == p {
			return true
		}
	}
	return false
}

// HarnessProxy: the wrapped implementation runs iff required ∈ effective set,
// where effective = attached set if one is attached (even empty) else defaults.
func HarnessProxy() {
	maxSet := verif.Bound("set", 2)
	defaults := permSet("def", maxSet)
	attached := verif.Bool("attached")
	var caller []auth.Permission
	ctx := context.Background()
	if attached {
		caller = permSet("caller", maxSet)
		ctx = auth.WithPerm(ctx, caller)
	}
	im := &impl{}
	var px proxyRead
	auth.PermissionedProxy(universe, defaults, im, &px)

	eff := defaults
	if attached {
		eff = caller
	}
	arg := verif.Int("arg")
	switch verif.Choice("method", 3) {
	case 0:
		err := px.Do(ctx, arg)
		want := contains(eff, "read")
		verif.Assert((err == nil) == want, "do-allowed-iff-perm")
		verif.Assert((im.nDo == 1) == want, "do-runs-iff-perm")
		verif.Assert(!want || im.lastArg == arg, "do-arg")
		verif.Assert(im.nGet == 0, "do-no-other")
	case 1:
		v, err := px.Get(ctx, arg)
		want := contains(eff, "write")
		verif.Assert((err == nil) == want, "get-allowed-iff-perm")
		verif.Assert((im.nGet == 1) == want, "get-runs-iff-perm")
		verif.Assert(!want || v == arg+1, "get-value")
		verif.Assert(want || v == 0, "get-zero-on-deny")
		verif.Assert(im.nDo == 0, "get-no-other")
	case 2:
		s, err := px.Fail(ctx)
		want := contains(eff, "admin")
		verif.Assert(err != nil, "fail-error")
		verif.Assert(want == (s == "partial"), "fail-passthrough-iff-perm")
		verif.Assert(want || s == "", "fail-zero-on-deny")
	}
	verif.Reach("proxy-done")
}

// HarnessProxyShared: the usual downstream arrangement — one list of all
// permissions in privilege order, and the default set, the caller's set and the
// list of valid permissions are prefixes of that one list (they share its backing
// array). The effective set is what those slices held when they were handed over.
func HarnessProxyShared() {
	orders := [][]auth.Permission{
		{"read", "write", "sign", "admin"},
		{"admin", "read", "sign", "write"},
		{"write", "sign", "read", "admin"},
	}
	all := orders[verif.Choice("order", len(orders))]
	pristine := append([]auth.Permission(nil), all...)
	nDef := verif.Choice("def_prefix", len(all)+1)
	defaults := all[:nDef]
	attached := verif.Bool("attached")
	ctx := context.Background()
	eff := pristine[:nDef]
	if attached {
		nCaller := verif.Choice("caller_prefix", len(all)+1)
		ctx = auth.WithPerm(ctx, all[:nCaller])
		eff = pristine[:nCaller]
	}
	im := &impl{}
	var px proxyRead
	auth.PermissionedProxy(all, defaults, im, &px)

	arg := verif.Int("arg")
	switch verif.Choice("method", 3) {
	case 0:
		err := px.Do(ctx, arg)
		want := contains(eff, "read")
		verif.Assert((err == nil) == want, "do-allowed-iff-perm")
		verif.Assert((im.nDo == 1) == want, "do-runs-iff-perm")
	case 1:
		_, err := px.Get(ctx, arg)
		want := contains(eff, "write")
		verif.Assert((err == nil) == want, "get-allowed-iff-perm")
		verif.Assert((im.nGet == 1) == want, "get-runs-iff-perm")
	case 2:
		s, _ := px.Fail(ctx)
		want := contains(eff, "admin")
		verif.Assert(want == (s == "partial"), "fail-passthrough-iff-perm")
	}
	verif.Reach("proxy-shared-done")
}

// HarnessHasPerm: HasPerm == membership in the effective set, for arbitrary strings.
func HarnessHasPerm() {
	maxSet := verif.Bound("set", 3)
	defaults := permSet("def", maxSet)
	attached := verif.Bool("attached")
	ctx := context.Background()
	eff := defaults
	if attached {
		caller := permSet("caller", maxSet)
		ctx = auth.WithPerm(ctx, caller)
		eff = caller
	}
	// unrelated context values must not interfere
	type otherKey int
	ctx = context.WithValue(ctx, otherKey(0), []auth.Permission{"admin"})
	p := auth.Permission(verif.String("perm", 5))
	verif.Assert(auth.HasPerm(ctx, defaults, p) == contains(eff, p), "hasperm-iff-member")
	verif.Reach("hasperm-done")
}

type recorder struct {
	status int
	hdr    http.Header
}

func (r *recorder) Header() http.Header         { return r.hdr }
func (r *recorder) Write(b []byte) (int, error) { return len(b), nil }
func (r *recorder) WriteHeader(s int)           { r.status = s }

// HarnessAuthHandler: the HTTP auth handler attaches exactly the verifier's
// permissions for a bearer token (header or token query parameter), passes
// token-less requests on with nothing attached, and answers 401 without
// calling the next handler when the token is malformed or rejected.
func HarnessAuthHandler() {
	hdrForm := verif.Choice("header", 3) // 0 absent, 1 arbitrary string, 2 "Bearer "+t
	qForm := verif.Choice("query", 2)    // 0 absent, 1 token=t2
	hdrVal := ""
	tok := verif.String("tok", 4)
	switch hdrForm {
	case 1:
		hdrVal = verif.String("rawhdr", 8)
	case 2:
		hdrVal = "Bearer " + tok
	}
	qTok := ""
	if qForm == 1 {
		qTok = verif.String("qtok", 4)
	}
	verifierFails := verif.Bool("verifier_fails")
	granted := permSet("granted", 2)

	var verifyCalls int
	var verifyTok string
	var nextCalls int
	var nextAttached bool
	var nextPerms []auth.Permission
	type probeKey struct{}
	h := &auth.Handler{
		Verify: func(ctx context.Context, token string) ([]auth.Permission, error) {
			verifyCalls++
			verifyTok = token
			if verifierFails {
				return nil, errors.New("bad token")
			}
			return granted, nil
		},
		Next: func(w http.ResponseWriter, r *http.Request) {
			nextCalls++
			// observe what is attached: with no defaults, HasPerm for p is true iff attached and p ∈ set
			nextAttached = !auth.HasPerm(r.Context(), []auth.Permission{"__probe__"}, "__probe__")
			for _, p := range universe {
				if auth.HasPerm(r.Context(), nil, p) {
					nextPerms = append(nextPerms, p)
				}
			}
		},
	}
	req := &http.Request{Header: http.Header{}, Form: url.Values{}, URL: &url.URL{}, RemoteAddr: "peer"}
	if hdrForm != 0 {
		req.Header.Set("Authorization", hdrVal)
	}
	if qForm == 1 {
		req.Form.Set("token", qTok)
	}
	req = req.WithContext(context.WithValue(context.Background(), probeKey{}, 1))
	rec := &recorder{hdr: http.Header{}}
	h.ServeHTTP(rec, req)

	// reference model
	eff := hdrVal
	if eff == "" && qTok != "" {
		eff = "Bearer " + qTok
	}
	switch {
	case eff == "":
		verif.Assert(nextCalls == 1 && rec.status == 0, "no-token-passes-on")
		verif.Assert(!nextAttached, "no-token-nothing-attached")
		verif.Assert(verifyCalls == 0, "no-token-no-verify")
	case len(eff) < 7 || eff[:7] != "Bearer ":
		verif.Assert(rec.status == 401 && nextCalls == 0, "malformed-401-no-next")
		verif.Assert(verifyCalls == 0, "malformed-no-verify")
	default:
		verif.Assert(verifyCalls == 1 && verifyTok == eff[7:], "verify-gets-token")
		if verifierFails {
			verif.Assert(rec.status == 401 && nextCalls == 0, "rejected-401-no-next")
		} else {
			verif.Assert(nextCalls == 1 && rec.status == 0, "accepted-passes-on")
			verif.Assert(nextAttached, "accepted-attached")
			for _, p := range universe {
				verif.Assert(contains(nextPerms, p) == contains(granted, p), "accepted-exact-perms")
			}
			verif.Assert(req.Context().Value(probeKey{}) == 1, "ctx-parent-kept")
		}
	}
	verif.Reach("auth-done")
}
