// Package c11: handler errors arrive intact; registered error types round-trip by code.
package c11

import (
	"context"
	"encoding/json"
	"errors"
	"fmt"

	jsonrpc "github.com/filecoin-project/go-jsonrpc"

	"gjvharness/hx"
	"gjvharness/verif"
)

// PtrErr: marshalable error registered in pointer form.
type PtrErr struct {
	Msg string
	N   int64
}

func (e *PtrErr) Error() string { return "ptrerr:" + e.Msg }
func (e *PtrErr) MarshalJSON() ([]byte, error) {
	return json.Marshal(struct {
		Msg string
		N   int64
	}{e.Msg, e.N})
}
func (e *PtrErr) UnmarshalJSON(b []byte) error {
	var t struct {
		Msg string
		N   int64
	}
	if err := json.Unmarshal(b, &t); err != nil {
		return err
	}
	e.Msg, e.N = t.Msg, t.N
	return nil
}

// ValErr: plain error type registered in value form (no metadata).
type ValErr struct{ Tag string }

func (e ValErr) Error() string { return "valerr" }

// CodecErr: supplies its own code/message/data.
type CodecErr struct {
	Detail string
	K      int64
}

const codecCode = 77

func (e *CodecErr) Error() string { return "codec:" + e.Detail }
func (e *CodecErr) ToJSONRPCError() (jsonrpc.JSONRPCError, error) {
	return jsonrpc.JSONRPCError{Code: codecCode, Message: e.Detail, Data: e.K}, nil
}
func (e *CodecErr) FromJSONRPCError(j jsonrpc.JSONRPCError) error {
	e.Detail = j.Message
	k, ok := j.Data.(float64)
	if !ok {
		return errors.New("bad data")
	}
	e.K = int64(k)
	return nil
}

// QuotaErr: registered by value; its decoder (pointer receiver) is strict and
// rejects what its own encoder produces, so the conversion on the client fails.
type QuotaErr struct{ N int64 }

const quotaCode = 88

func (e QuotaErr) Error() string { return "quota" }
func (e QuotaErr) ToJSONRPCError() (jsonrpc.JSONRPCError, error) {
	return jsonrpc.JSONRPCError{Code: quotaCode, Message: "quota exceeded"}, nil
}
func (e *QuotaErr) FromJSONRPCError(j jsonrpc.JSONRPCError) error {
	s, ok := j.Data.(string)
	if !ok {
		return errors.New("quota error without details")
	}
	e.N = int64(len(s))
	return nil
}

// BrokenCodecErr: a codec-style error whose conversion to the wire form fails.
type BrokenCodecErr struct{ Msg string }

func (e *BrokenCodecErr) Error() string { return "broken:" + e.Msg }
func (e *BrokenCodecErr) ToJSONRPCError() (jsonrpc.JSONRPCError, error) {
	return jsonrpc.JSONRPCError{}, errors.New("cannot convert")
}
func (e *BrokenCodecErr) FromJSONRPCError(j jsonrpc.JSONRPCError) error {
	e.Msg = j.Message
	return nil
}

// BothErr implements the codec interface AND json.Marshaler/Unmarshaler, and its codec puts
// something into Meta as well: the codec wins on both sides.
type BothErr struct {
	Msg  string
	Used int64
}

const bothCode = 99

func (e *BothErr) Error() string { return "both:" + e.Msg }
func (e *BothErr) ToJSONRPCError() (jsonrpc.JSONRPCError, error) {
	return jsonrpc.JSONRPCError{Code: bothCode, Message: e.Msg, Data: e.Used, Meta: json.RawMessage(`{"schema":"other"}`)}, nil
}
func (e *BothErr) FromJSONRPCError(j jsonrpc.JSONRPCError) error {
	e.Msg = j.Message
	u, ok := j.Data.(float64)
	if !ok {
		return errors.New("bad data")
	}
	e.Used = int64(u)
	return nil
}
func (e *BothErr) MarshalJSON() ([]byte, error) {
	return json.Marshal(map[string]interface{}{"m": e.Msg, "u": e.Used})
}
func (e *BothErr) UnmarshalJSON(b []byte) error {
	var t struct {
		M string `json:"m"`
		U int64  `json:"u"`
	}
	if err := json.Unmarshal(b, &t); err != nil {
		return err
	}
	e.Msg, e.Used = "from-meta:"+t.M, t.U
	return nil
}

// NilSafeErr: its Error method works on a nil receiver, so a typed nil pointer is a
// perfectly good (non-nil) error value.
type NilSafeErr struct{ Msg string }

func (e *NilSafeErr) Error() string {
	if e == nil {
		return "nilsafe:<nil>"
	}
	return "nilsafe:" + e.Msg
}

// wrapErr: an unregistered error type that wraps a registered one (Unwrap).
type wrapErr struct {
	msg   string
	inner error
}

func (e *wrapErr) Error() string { return "wrap:" + e.msg }
func (e *wrapErr) Unwrap() error { return e.inner }

type H struct {
	kind int
	msg  string
	n    int64
	ran  int
}

func (h *H) mk() error {
	switch h.kind {
	case 0:
		return nil
	case 1:
		return errors.New(h.msg)
	case 2:
		return &PtrErr{Msg: h.msg, N: h.n}
	case 3:
		return ValErr{Tag: "t"}
	case 4:
		return &CodecErr{Detail: h.msg, K: h.n}
	case 5:
		return QuotaErr{N: h.n}
	case 6:
		return &BrokenCodecErr{Msg: h.msg}
	case 7:
		// not registered itself; the error it wraps is
		return &wrapErr{msg: h.msg, inner: &PtrErr{Msg: "inner", N: h.n}}
	case 8:
		return fmt.Errorf("annotated %s: %w", h.msg, &CodecErr{Detail: "inner", K: h.n})
	case 9:
		var e *NilSafeErr // a nil pointer inside a non-nil error interface
		return e
	case 10:
		return &BothErr{Msg: h.msg, Used: h.n}
	}
	return nil
}

func (h *H) OnlyErr(ctx context.Context) error { h.ran++; return h.mk() }
func (h *H) ValErr(a int64) (int64, error) {
	h.ran++
	if e := h.mk(); e != nil {
		return 12345, e
	}
	return a, nil
}

type C struct {
	OnlyErr func(ctx context.Context) error
	ValErr  func(a int64) (int64, error)
}

const (
	codePtr = 1001
	codeVal = 1002
)

// extraCodes: on the receiving side PtrErr is additionally registered under a second, newer
// code after the one the sender uses; both registrations stay valid.
var extraCodes bool

func table(which int, altCodes bool, extra bool) *jsonrpc.Errors {
	// which: 0 none, 1 full, 2 without PtrErr
	if which == 0 {
		return nil
	}
	e := jsonrpc.NewErrors()
	cp, cv := jsonrpc.ErrorCode(codePtr), jsonrpc.ErrorCode(codeVal)
	if altCodes {
		cp, cv = 2001, 2002
	}
	if which == 1 {
		e.Register(cp, new(*PtrErr))
		if extra {
			e.Register(cp+5000, new(*PtrErr))
		}
	}
	e.Register(cv, new(ValErr))
	e.Register(codecCode, new(*CodecErr))
	e.Register(quotaCode, new(QuotaErr))
	e.Register(bothCode, new(*BothErr))
	return &e
}

// HarnessErrors: handler outcome x error type x registration tables x method shape x transport.
func HarnessErrors() {
	h := &H{kind: verif.Choice("kind", 11), msg: verif.String("msg", 3), n: verif.Int("n")}
	verif.Assume(h.n >= -(1<<53) && h.n <= 1<<53)
	extraCodes = h.kind == 2 && verif.Bool("type_registered_under_two_codes")
	srvTab := verif.Choice("server_table", 3)
	cliTab := verif.Choice("client_table", 3)
	disjoint := verif.Bool("disjoint_codes")
	var sopts []jsonrpc.ServerOption
	if t := table(srvTab, false, false); t != nil {
		sopts = append(sopts, jsonrpc.WithServerErrors(*t))
	}
	srv := jsonrpc.NewServer(sopts...)
	srv.Register("E", h)
	var copts []jsonrpc.Option
	if t := table(cliTab, disjoint, extraCodes); t != nil {
		copts = append(copts, jsonrpc.WithErrors(*t))
	}
	var c C
	var err error
	var closer jsonrpc.ClientCloser
	switch verif.Choice("transport", verif.Bound("transports", 2)) {
	case 0:
		closer, err = jsonrpc.NewCustomClient("E", []interface{}{&c}, hx.CustomDo(srv), copts...)
	case 1:
		closer, err = jsonrpc.NewMergeClient(context.Background(), "http://server/rpc", "E", []interface{}{&c}, nil,
			append(copts, jsonrpc.WithHTTPClient(hx.HTTPClient(srv)))...)
	default:
		url, stop := verif.ServeWS(srv)
		var wsCloser jsonrpc.ClientCloser
		wsCloser, err = jsonrpc.NewMergeClient(context.Background(), url, "E", []interface{}{&c}, nil, copts...)
		closer = func() {
			if wsCloser != nil {
				wsCloser()
			}
			stop()
			verif.Quiesce()
		}
	}
	verif.Assert(err == nil, "client-created")
	defer closer()

	var got error
	a := verif.Int("a")
	if verif.Bool("value_shape") {
		var v int64
		v, got = c.ValErr(a)
		if h.kind == 0 {
			verif.Assert(v == a, "value-on-success")
		} else {
			verif.Assert(v == 0, "zero-value-on-error")
		}
	} else {
		got = c.OnlyErr(context.Background())
	}
	verif.Assert(h.ran == 1, "handler-ran-once")
	verif.Assert((got != nil) == (h.kind != 0), "error-iff-handler-error")
	if got == nil {
		verif.Reach("errors-done")
		return
	}
	registeredBoth := func(tabOK func(int) bool) bool { return tabOK(srvTab) && tabOK(cliTab) && !disjoint }
	generic := func(wantMsg string, wantCode jsonrpc.ErrorCode) {
		je, ok := got.(*jsonrpc.JSONRPCError)
		verif.Assert(ok, "unregistered-arrives-as-generic-error")
		if ok {
			verif.Assert(je.Message == wantMsg, "generic-message-preserved")
			verif.Assert(je.Code == wantCode, "generic-code-preserved")
		}
	}
	srvCode := func(reg bool, code jsonrpc.ErrorCode) jsonrpc.ErrorCode {
		if reg {
			return code
		}
		return 1
	}
	switch h.kind {
	case 1:
		generic(h.msg, 1)
	case 2:
		if registeredBoth(func(t int) bool { return t == 1 }) {
			pe, ok := got.(*PtrErr)
			verif.Assert(ok, "registered-pointer-type-arrives-as-itself")
			if ok {
				verif.Assert(pe.Msg == h.msg && pe.N == h.n, "registered-fields-equal")
			}
		} else if cliTab == 0 || (!disjoint && cliTab == 2) || (disjoint && srvTab != 1) {
			generic("ptrerr:"+h.msg, srvCode(srvTab == 1, codePtr))
		} else {
			// codes collide with another registration on the client: anything but nil/panic
			verif.Assert(got != nil, "conversion-never-nil")
		}
	case 3:
		if registeredBoth(func(t int) bool { return t != 0 }) {
			ve, ok := got.(ValErr)
			verif.Assert(ok, "registered-value-type-arrives-as-itself")
			_ = ve
		} else if cliTab == 0 || srvTab == 0 {
			generic("valerr", srvCode(srvTab != 0, codeVal))
		} else {
			verif.Assert(got != nil, "conversion-never-nil")
		}
	case 7:
		// the dynamic type of the returned error is not registered (only something it wraps is):
		// generic error, the handler's message, generic code
		generic("wrap:"+h.msg, 1)
	case 8:
		generic("annotated "+h.msg+": codec:inner", 1)
	case 9:
		generic("nilsafe:<nil>", 1)
	case 10:
		// codec errors carry their own code; where the client knows the type the codec's fields arrive
		if cliTab != 0 {
			be, ok := got.(*BothErr)
			verif.Assert(ok, "codec-type-arrives-as-itself")
			if ok {
				verif.Assert(be.Msg == h.msg && be.Used == h.n, "codec-fields-win-over-meta")
			}
		} else {
			generic(h.msg, bothCode)
		}
	case 6:
		// the server-side conversion fails: the error must still arrive, as the generic error
		generic("broken:"+h.msg, 1)
	case 5:
		// the conversion fails on the client (strict decoder): it must degrade to the generic error
		// (the value form does not implement the codec interface, so the server sends the plain message
		// under the registered code, or 1 without a server table)
		generic("quota", srvCode(srvTab != 0, quotaCode))
	case 4:
		// codec errors carry their own code, whatever the server table says
		if cliTab != 0 {
			ce, ok := got.(*CodecErr)
			verif.Assert(ok, "codec-type-arrives-as-itself")
			if ok {
				verif.Assert(ce.Detail == h.msg && ce.K == h.n, "codec-fields-equal")
			}
		} else {
			generic(h.msg, codecCode)
		}
	}
	verif.Reach("errors-done")
}
