// Package c18: closing a client always completes and leaves nothing blocked.
package c18

import (
	"bytes"
	"context"
	"encoding/json"
	"io"
	"time"

	jsonrpc "github.com/filecoin-project/go-jsonrpc"

	"gjvharness/hx"
	"gjvharness/verif"
)

type C struct {
	Echo func(ctx context.Context, tok int64) (int64, error)
	Sub  func(ctx context.Context) (<-chan int64, error)
}

type wireReq struct {
	ID     json.RawMessage   `json:"id"`
	Method string            `json:"method"`
	Params []json.RawMessage `json:"params"`
}

// peer: answers Echo unless mute, answers Sub with a channel id and one value, then keeps reading.
func peer(l *verif.Listener, mute bool, faultAfterFirst int) { peerSub(l, mute, faultAfterFirst, 0) }

// subResults: what a (possibly foreign or misbehaving) peer answers to a subscription
// request: a channel id, or something that is not one.
var subResults = []interface{}{3, "not-a-channel-id", map[string]interface{}{"chan": 3}, -3, 2.5}

func peerSub(l *verif.Listener, mute bool, faultAfterFirst int, subResult int) {
	verif.Daemon()
	for {
		pc := l.Accept()
		n := 0
		for {
			b, ok := pc.Recv()
			if !ok {
				break
			}
			var r wireReq
			if json.Unmarshal(b, &r) != nil || r.ID == nil {
				continue
			}
			n++
			switch r.Method {
			case "NS.Echo":
				if !mute {
					rb, _ := json.Marshal(map[string]interface{}{"jsonrpc": "2.0", "id": r.ID, "result": r.Params[0]})
					pc.Send(rb)
				}
			case "NS.Sub":
				rb, _ := json.Marshal(map[string]interface{}{"jsonrpc": "2.0", "id": r.ID, "result": subResults[subResult]})
				pc.Send(rb)
				pc.Send([]byte(`{"jsonrpc":"2.0","method":"xrpc.ch.val","params":[3,11]}`))
			}
			if n == 1 && faultAfterFirst > 0 {
				switch faultAfterFirst {
				case 1:
					pc.Abort()
				case 2:
					pc.SendTruncated()
				}
				faultAfterFirst = 0
				break
			}
		}
	}
}

// HarnessCloseWS: the closer is invoked at every instant of a mixed workload.
func HarnessCloseWS() {
	mute := verif.Bool("mute")
	fault := verif.Choice("fault", verif.Bound("F", 0)*2+1)
	failDials := verif.Choice("faildials", verif.Bound("R", 0)+1)
	withStream := verif.Bool("with_stream")
	subResult := 0
	if withStream {
		subResult = verif.Choice("sub_result", verif.Bound("subresults", len(subResults)))
	}
	l := verif.ListenWS()
	go peerSub(l, mute, fault, subResult)
	var c C
	closer, err := jsonrpc.NewMergeClient(context.Background(), l.URL(), "NS", []interface{}{&c}, nil,
		jsonrpc.WithReconnectBackoff(time.Millisecond, 5*time.Millisecond))
	verif.Assert(err == nil, "client-created")
	if fault > 0 {
		l.FailNext(failDials)
	}
	tok := verif.Int("tok")
	callRet, subRet, chClosed := 0, 0, 0
	var callVal int64
	var callErr error
	go func() {
		callVal, callErr = c.Echo(context.Background(), tok)
		callRet++
	}()
	lags := withStream && subResult == 0 && verif.Bool("consumer_lags")
	drain := make(chan struct{})
	if withStream {
		go func() {
			ch, err := c.Sub(context.Background())
			subRet++
			if err == nil && ch != nil {
				if lags {
					<-drain // values pile up in the client until after the close
				}
				for range ch {
				}
				chClosed++
			} else {
				chClosed++ // no channel was handed out
			}
		}()
	}
	closerRet := 0
	dialsAtClose := -1
	if lags {
		verif.Quiesce() // everything the peer sent is inside the client, unread, before the close
	}
	go func() {
		verif.AtStep("close_at", verif.Bound("steps", 40))
		closer()
		closerRet++
		dialsAtClose = l.Dials()
	}()
	verif.Quiesce()
	if lags {
		close(drain)
		verif.Quiesce()
	}
	verif.Assert(!verif.Crashed(), "no-panic")
	verif.Assert(closerRet == 1, "closer-returns")
	verif.Assert(callRet == 1, "in-flight-call-returns")
	verif.Assert(callErr != nil || callVal == tok, "in-flight-call-own-result-or-error")
	if withStream {
		verif.Assert(subRet == 1, "subscription-call-returns")
		verif.Assert(chClosed == 1, "client-channel-closed")
	}
	// a later call fails promptly
	lateRet := 0
	var lateErr error
	go func() {
		_, lateErr = c.Echo(context.Background(), 5)
		lateRet++
	}()
	verif.Quiesce()
	verif.Assert(lateRet == 1 && lateErr != nil, "later-call-fails-promptly")
	verif.Assert(!verif.Crashed(), "no-panic-on-later-call")
	verif.Assert(l.Dials() == dialsAtClose, "no-dial-after-close")
	verif.Reach("close-ws-done")
}

type H struct{ release chan struct{} }

func (h *H) Echo(ctx context.Context, tok int64) (int64, error) { <-h.release; return tok, nil }

// HarnessCloseHTTP: closers of HTTP and custom clients return immediately and do
// not disturb a call in progress.
func HarnessCloseHTTP() {
	h := &H{release: make(chan struct{})}
	srv := jsonrpc.NewServer()
	srv.Register("NS", h)
	var c struct {
		Echo func(ctx context.Context, tok int64) (int64, error)
	}
	var closer jsonrpc.ClientCloser
	var err error
	if verif.Bool("custom") {
		closer, err = jsonrpc.NewCustomClient("NS", []interface{}{&c}, func(ctx context.Context, body []byte) (io.ReadCloser, error) {
			var out bytes.Buffer
			srv.HandleRequest(ctx, bytes.NewReader(body), &out)
			return io.NopCloser(&out), nil
		})
	} else {
		closer, err = jsonrpc.NewMergeClient(context.Background(), "http://server/rpc", "NS", []interface{}{&c}, nil, jsonrpc.WithHTTPClient(hx.HTTPClient(srv)))
	}
	verif.Assert(err == nil, "client-created")
	tok := verif.Int("tok")
	ret := 0
	var v int64
	var cerr error
	go func() { v, cerr = c.Echo(context.Background(), tok); ret++ }()
	verif.Quiesce() // the call is inside the handler
	closer()        // must return immediately (we are not blocked here)
	verif.Assert(ret == 0, "call-still-in-progress")
	close(h.release)
	verif.Quiesce()
	verif.Assert(ret == 1 && cerr == nil && v == tok, "call-in-progress-completes-after-close")
	verif.Reach("close-http-done")
}

// HarnessCancelAndClose: calls with cancellable contexts are cancelled at one
// instant and the client is closed at another; afterwards every call has returned.
func HarnessCancelAndClose() {
	l := verif.ListenWS()
	go peer(l, true, 0) // the peer never answers
	var c C
	closer, err := jsonrpc.NewMergeClient(context.Background(), l.URL(), "NS", []interface{}{&c}, nil)
	verif.Assert(err == nil, "client-created")
	ctx, cancel := context.WithCancel(context.Background())
	n := 2
	ret := 0
	for i := 0; i < n; i++ {
		go func() { c.Echo(ctx, 1); ret++ }()
	}
	go func() {
		verif.AtStep("cancel_at", verif.Bound("csteps", 10))
		cancel()
	}()
	closerRet := 0
	go func() {
		verif.AtStep("close_at", verif.Bound("steps", 20))
		closer()
		closerRet++
	}()
	verif.Quiesce()
	verif.Assert(closerRet == 1, "closer-returns")
	verif.Assert(ret == n, "cancelled-calls-return-after-close")
	cancel()
	verif.Reach("cancel-and-close-done")
}
