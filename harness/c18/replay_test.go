package c18

import (
	"testing"

	"gjvharness/verif"
)

func TestReplay(t *testing.T) {
	verif.ReplayMain(map[string]func(){
		"HarnessCancelAndClose": HarnessCancelAndClose,
		"HarnessCloseHTTP":      HarnessCloseHTTP,
		"HarnessCloseWS":        HarnessCloseWS,
	})
}
