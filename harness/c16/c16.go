// Package c16: reverse calls reach the calling client and fail, not block, once it is gone.
package c16

import (
	"bytes"
	"context"
	"encoding/json"
	"sync"

	jsonrpc "github.com/filecoin-project/go-jsonrpc"

	"gjvharness/verif"
)

// RevProxy is the server's view of the client-side handler.
type RevProxy struct {
	Whoami  func(ctx context.Context, salt int64) (int64, error)
	Aliased func(ctx context.Context, salt int64) (int64, error) `rpc_method:"rev.Alias"`
	Feed    func(ctx context.Context) (<-chan int64, error)
	Poke    func(salt int64) error `notify:"true"`
}

// revImpl is registered on each client.
type revImpl struct {
	id    int64
	calls int
}

func (r *revImpl) Whoami(ctx context.Context, salt int64) (int64, error) {
	r.calls++
	return r.id + salt, nil
}

type H struct {
	mu         sync.Mutex
	present    map[int64]bool
	revErr     map[int64]error
	revRet     map[int64]int
	useAliased bool
	useFeed    bool
	usePoke    bool          // the reverse call is a notification
	waitLoss   chan struct{} // if set, the reverse call is made only after the harness closed it
	entered    chan struct{}
}

// Fwd calls back into the client that is making this very call.
func (h *H) Fwd(ctx context.Context, tag int64, salt int64) (int64, error) {
	rc, ok := jsonrpc.ExtractReverseClient[RevProxy](ctx)
	h.mu.Lock()
	h.present[tag] = ok
	h.mu.Unlock()
	if h.entered != nil {
		close(h.entered)
	}
	if !ok {
		return -1, nil
	}
	var v int64
	var err error
	if h.waitLoss != nil {
		<-h.waitLoss
	}
	if h.usePoke {
		err = rc.Poke(salt)
	} else if h.useFeed {
		var ch <-chan int64
		ch, err = rc.Feed(ctx)
		if err == nil && ch != nil {
			for x := range ch {
				v += x
			}
		}
	} else if h.useAliased {
		v, err = rc.Aliased(ctx, salt)
	} else {
		v, err = rc.Whoami(ctx, salt)
	}
	h.mu.Lock()
	h.revRet[tag]++
	h.revErr[tag] = err
	h.mu.Unlock()
	return v, err
}

type C struct {
	Fwd func(ctx context.Context, tag int64, salt int64) (int64, error)
}

func newH() *H {
	return &H{present: map[int64]bool{}, revErr: map[int64]error{}, revRet: map[int64]int{}}
}

// HarnessReverseRouting: two clients connected to one server; each forward call
// triggers a reverse call that must reach exactly the calling client.
func HarnessReverseRouting() {
	h := newH()
	h.useAliased = verif.Bool("aliased")
	// a method-name formatter shared by both sides; server options are independent of one
	// another, so their order does not matter
	name := jsonrpc.DefaultMethodNameFormatter
	sopts := []jsonrpc.ServerOption{jsonrpc.WithReverseClient[RevProxy]("rev")}
	var copts []jsonrpc.Option
	switch verif.Choice("formatter", 3) {
	case 1:
		name = func(ns, m string) string { return ns + "_" + m }
		sopts = append(sopts, jsonrpc.WithServerMethodNameFormatter(name))
		copts = append(copts, jsonrpc.WithMethodNameFormatter(name))
	case 2:
		name = func(ns, m string) string { return ns + "_" + m }
		sopts = append([]jsonrpc.ServerOption{jsonrpc.WithServerMethodNameFormatter(name)}, sopts...)
		copts = append(copts, jsonrpc.WithMethodNameFormatter(name))
	}
	srv := jsonrpc.NewServer(sopts...)
	srv.Register("H", h)
	url, stop := verif.ServeWS(srv)
	ids := [2]int64{verif.Int("id0"), verif.Int("id1")}
	verif.Assume(ids[0] != ids[1])
	var cs [2]C
	var impls [2]*revImpl
	var closers [2]jsonrpc.ClientCloser
	for i := 0; i < 2; i++ {
		impls[i] = &revImpl{id: ids[i]}
		var err error
		closers[i], err = jsonrpc.NewMergeClient(context.Background(), url, "H", []interface{}{&cs[i]}, nil,
			// the client's handler lives in namespace "cli" (client-side handlers are always named with
			// the default formatter); it is reachable for the server only through aliases spelled
			// the way the server names its reverse calls
			append(copts, jsonrpc.WithClientHandler("cli", impls[i]),
				jsonrpc.WithClientHandlerAlias(name("rev", "Whoami"), "cli.Whoami"),
				jsonrpc.WithClientHandlerAlias("rev.Alias", "cli.Whoami"))...)
		verif.Assert(err == nil, "client-created")
	}
	salt := verif.Int("salt")
	var got [2]int64
	var errs [2]error
	var ret [2]int
	for i := 0; i < 2; i++ {
		i := i
		go func() {
			got[i], errs[i] = cs[i].Fwd(context.Background(), int64(i), salt)
			ret[i]++
		}()
	}
	verif.Quiesce()
	for i := 0; i < 2; i++ {
		verif.Assert(ret[i] == 1 && errs[i] == nil, "forward-call-returns")
		verif.Assert(h.present[int64(i)], "reverse-client-present-on-websocket")
		verif.Assert(got[i] == ids[i]+salt, "reverse-call-reached-the-calling-client")
		verif.Assert(impls[i].calls == 1, "each-client-handler-ran-once")
	}
	closers[0]()
	closers[1]()
	stop()
	verif.Quiesce()
	verif.Reach("reverse-routing-done")
}

type wireReq struct {
	ID     json.RawMessage   `json:"id"`
	Method string            `json:"method"`
	Params []json.RawMessage `json:"params"`
}

// HarnessReverseLoss: the client goes away during the reverse exchange; the
// reverse call returns an error instead of blocking.
func HarnessReverseLoss() {
	h := newH()
	srv := jsonrpc.NewServer(jsonrpc.WithReverseClient[RevProxy]("rev"))
	srv.Register("H", h)
	h.entered = make(chan struct{})
	pc := verif.DialRaw(srv, nil)
	when := verif.Choice("loss", 4) // 0: before reading the reverse request, 1: after reading it, 2: answer it (control), 3: reverse stream request answered with something that is not a channel id, then lost
	kind := verif.Choice("kind", 2)
	lose := func() {
		if kind == 0 {
			pc.Abort()
		} else {
			pc.CloseGraceful()
		}
	}
	h.useFeed = when == 3
	pc.Send([]byte(`{"jsonrpc":"2.0","id":1,"method":"H.Fwd","params":[0,5]}`))
	<-h.entered // the forward call is being served (a reset must not destroy the unread request)
	if when == 0 {
		lose()
	} else {
		b, ok := pc.Recv()
		verif.Assert(ok, "reverse-request-arrives")
		var r wireReq
		json.Unmarshal(b, &r)
		if when == 3 {
			verif.Assert(r.Method == "rev.Feed", "reverse-request-method")
			bad := []interface{}{"not-a-channel-id", map[string]interface{}{"x": 1}, -1, 1.5}
			rb, _ := json.Marshal(map[string]interface{}{"jsonrpc": "2.0", "id": r.ID, "result": bad[verif.Choice("bad_result", len(bad))]})
			pc.Send(rb)
			verif.Quiesce() // the malformed answer has been processed: now the client goes away
			lose()
		} else if verif.Assert(r.Method == "rev.Whoami", "reverse-request-method"); when == 1 {
			lose()
		} else {
			rb, _ := json.Marshal(map[string]interface{}{"jsonrpc": "2.0", "id": r.ID, "result": 42})
			pc.Send(rb)
			fb, ok := pc.Recv()
			verif.Assert(ok, "forward-response-arrives")
			var fr struct {
				Result int64 `json:"result"`
			}
			json.Unmarshal(fb, &fr)
			verif.Assert(fr.Result == 42, "forward-result-is-reverse-answer")
			pc.CloseGraceful()
		}
	}
	verif.Quiesce()
	verif.Assert(h.revRet[0] == 1, "reverse-call-returns-after-client-is-gone")
	if when != 2 {
		verif.Assert(h.revErr[0] != nil, "reverse-call-fails-after-client-is-gone")
	}
	verif.Reach("reverse-loss-done")
}

// HarnessReverseFromNotification: the forward request that triggers the reverse
// call is a notification (no id). The reverse call still reaches the calling
// client and returns its answer while the connection stays up.
func HarnessReverseFromNotification() {
	h := newH()
	srv := jsonrpc.NewServer(jsonrpc.WithReverseClient[RevProxy]("rev"))
	srv.Register("H", h)
	h.entered = make(chan struct{})
	pc := verif.DialRaw(srv, nil)
	if verif.Bool("null_id") {
		pc.Send([]byte(`{"jsonrpc":"2.0","id":null,"method":"H.Fwd","params":[0,5]}`))
	} else {
		pc.Send([]byte(`{"jsonrpc":"2.0","method":"H.Fwd","params":[0,5]}`))
	}
	<-h.entered
	b, ok := pc.Recv()
	verif.Assert(ok, "reverse-request-arrives")
	var r wireReq
	json.Unmarshal(b, &r)
	verif.Assert(r.Method == "rev.Whoami", "reverse-request-method")
	rb, _ := json.Marshal(map[string]interface{}{"jsonrpc": "2.0", "id": r.ID, "result": 42})
	pc.Send(rb)
	verif.Quiesce()
	h.mu.Lock()
	verif.Assert(h.revRet[0] == 1 && h.revErr[0] == nil, "reverse-call-from-a-notification-handler-returns-the-clients-answer")
	h.mu.Unlock()
	// the connection is still fully usable
	h.entered = nil
	pc.Send([]byte(`{"jsonrpc":"2.0","id":7,"method":"H.Fwd","params":[1,5]}`))
	b2, ok2 := pc.Recv()
	verif.Assert(ok2, "later-reverse-request-arrives")
	json.Unmarshal(b2, &r)
	rb, _ = json.Marshal(map[string]interface{}{"jsonrpc": "2.0", "id": r.ID, "result": 43})
	pc.Send(rb)
	fb, ok3 := pc.Recv()
	verif.Assert(ok3, "later-forward-response-arrives")
	var fr struct {
		Result int64 `json:"result"`
	}
	json.Unmarshal(fb, &fr)
	verif.Assert(fr.Result == 43, "later-forward-result-is-reverse-answer")
	pc.CloseGraceful()
	verif.Quiesce()
	verif.Reach("reverse-from-notification-done")
}

// HarnessReverseNotifyAfterLoss: the reverse call is a notification (no response is
// awaited) and is made right after the calling client's connection was lost —
// possibly before the server's connection loop has noticed the loss. It returns
// (with or without an error); it never blocks.
func HarnessReverseNotifyAfterLoss() {
	h := newH()
	h.usePoke = true
	h.waitLoss = make(chan struct{})
	h.entered = make(chan struct{})
	srv := jsonrpc.NewServer(jsonrpc.WithReverseClient[RevProxy]("rev"))
	srv.Register("H", h)
	pc := verif.DialRaw(srv, nil)
	pc.Send([]byte(`{"jsonrpc":"2.0","id":1,"method":"H.Fwd","params":[0,5]}`))
	<-h.entered
	if verif.Bool("graceful") {
		pc.CloseGraceful()
	} else {
		pc.Abort()
	}
	go func() {
		verif.AtStep("poke_at", verif.Bound("steps", 12))
		close(h.waitLoss)
	}()
	verif.Quiesce()
	h.mu.Lock()
	verif.Assert(h.revRet[0] == 1, "reverse-notification-returns-after-client-is-gone")
	h.mu.Unlock()
	verif.Reach("reverse-notify-after-loss-done")
}

// HarnessReverseAbsent: without the server option, or over non-WebSocket transports, no reverse client is present.
func HarnessReverseAbsent() {
	h := newH()
	var srv *jsonrpc.RPCServer
	withOpt := verif.Bool("with_option")
	if withOpt {
		srv = jsonrpc.NewServer(jsonrpc.WithReverseClient[RevProxy]("rev"))
	} else {
		srv = jsonrpc.NewServer()
	}
	srv.Register("H", h)
	if verif.Bool("over_http") {
		var out bytes.Buffer
		srv.HandleRequest(context.Background(), bytes.NewReader([]byte(`{"jsonrpc":"2.0","id":1,"method":"H.Fwd","params":[0,5]}`)), &out)
		verif.Assert(!h.present[0], "no-reverse-client-over-http")
	} else {
		verif.Assume(!withOpt)
		pc := verif.DialRaw(srv, nil)
		pc.Send([]byte(`{"jsonrpc":"2.0","id":1,"method":"H.Fwd","params":[0,5]}`))
		_, ok := pc.Recv()
		verif.Assert(ok, "forward-answered")
		verif.Assert(!h.present[0], "no-reverse-client-without-option")
		pc.CloseGraceful()
		verif.Quiesce()
	}
	verif.Reach("reverse-absent-done")
}

type LateH struct {
	mu      sync.Mutex
	entered chan struct{}
	ret     int
	err     error
}

// Late waits until its own context ends (the connection is gone), then reverse-calls.
func (h *LateH) Late(ctx context.Context) (int64, error) {
	rc, ok := jsonrpc.ExtractReverseClient[RevProxy](ctx)
	close(h.entered)
	if !ok {
		return -1, nil
	}
	<-ctx.Done()
	v, err := rc.Whoami(context.Background(), 1)
	h.mu.Lock()
	h.ret++
	h.err = err
	h.mu.Unlock()
	return v, err
}

// HarnessReverseAfterGone: a handler that is still running after its client's
// connection ended starts a reverse call: it returns an error, it does not block.
func HarnessReverseAfterGone() {
	h := &LateH{entered: make(chan struct{})}
	srv := jsonrpc.NewServer(jsonrpc.WithReverseClient[RevProxy]("rev"))
	srv.Register("H", h)
	pc := verif.DialRaw(srv, nil)
	pc.Send([]byte(`{"jsonrpc":"2.0","id":1,"method":"H.Late","params":[]}`))
	<-h.entered
	if verif.Bool("reset") {
		pc.Abort()
	} else {
		pc.CloseGraceful()
	}
	verif.Quiesce()
	verif.Assert(h.ret == 1, "reverse-call-started-after-loss-returns")
	verif.Assert(h.err != nil, "reverse-call-started-after-loss-fails")
	verif.Reach("reverse-after-gone-done")
}
