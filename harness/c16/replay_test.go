package c16

import (
	"testing"

	"gjvharness/verif"
)

func TestReplay(t *testing.T) {
	verif.ReplayMain(map[string]func(){
		"HarnessReverseAbsent":           HarnessReverseAbsent,
		"HarnessReverseAfterGone":        HarnessReverseAfterGone,
		"HarnessReverseFromNotification": HarnessReverseFromNotification,
		"HarnessReverseLoss":             HarnessReverseLoss,
		"HarnessReverseNotifyAfterLoss":  HarnessReverseNotifyAfterLoss,
		"HarnessReverseRouting":          HarnessReverseRouting,
	})
}
