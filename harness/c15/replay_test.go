package c15

import (
	"testing"

	"gjvharness/verif"
)

func TestReplay(t *testing.T) {
	verif.ReplayMain(map[string]func(){
		"HarnessConnEnd":       HarnessConnEnd,
		"HarnessStalledWriter": HarnessStalledWriter,
	})
}
