// Package c15: when a connection ends the server cancels its handlers and lets go of it.
package c15

import (
	"context"
	"encoding/json"
	"sync"

	jsonrpc "github.com/filecoin-project/go-jsonrpc"

	"gjvharness/verif"
)

type H struct {
	mu      sync.Mutex
	ctxs    map[int]context.Context
	release chan struct{}
	exited  map[int]int
	linger  map[int]bool // keep running after cancellation until released
}

func (h *H) wait(ctx context.Context, tag int) {
	h.mu.Lock()
	h.ctxs[tag] = ctx
	h.mu.Unlock()
	<-ctx.Done()
	if h.linger[tag] {
		<-h.release
	}
	h.mu.Lock()
	h.exited[tag]++
	h.mu.Unlock()
}

// Quick answers at once.
func (h *H) Quick(ctx context.Context, tag int) (int, error) { return tag, nil }

// Unary answers (late) after its context ended.
func (h *H) Unary(ctx context.Context, tag int) (int, error) { h.wait(ctx, tag); return tag, nil }

// Notif is called as a notification.
func (h *H) Notif(ctx context.Context, tag int) { h.wait(ctx, tag) }

// Stream returns a channel fed until the context ends.
func (h *H) Stream(ctx context.Context, tag int) (<-chan int, error) {
	out := make(chan int)
	go func() {
		defer close(out)
		h.wait(ctx, tag)
	}()
	return out, nil
}

// LateStream returns its channel only after its context ended (slow set-up of a subscription).
func (h *H) LateStream(ctx context.Context, tag int) (<-chan int, error) {
	h.wait(ctx, tag)
	out := make(chan int)
	close(out)
	return out, nil
}

func send(pc *verif.PeerConn, m map[string]interface{}) {
	b, _ := json.Marshal(m)
	pc.Send(b)
}

// HarnessConnEnd: handlers of several kinds are in progress when the connection
// ends (close frame / reset / server-side context cancel). All their contexts are
// cancelled, and once they have returned no library goroutine is left for the
// dead connection.
func HarnessConnEnd() {
	h := &H{ctxs: map[int]context.Context{}, release: make(chan struct{}), exited: map[int]int{}, linger: map[int]bool{}}
	srv := jsonrpc.NewServer()
	srv.Register("H", h)
	base, cancelBase := context.WithCancel(context.Background())
	defer cancelBase()
	pc := verif.DialRaw(srv, base)
	n := verif.Bound("N", 2)
	kinds := make([]int, n)
	for i := 0; i < n; i++ {
		kinds[i] = verif.Choice("kind"+string(rune('0'+i)), 4)
		h.linger[i] = verif.Bool("linger" + string(rune('0'+i)))
		switch kinds[i] {
		case 0:
			send(pc, map[string]interface{}{"jsonrpc": "2.0", "id": i + 1, "method": "H.Unary", "params": []interface{}{i}})
		case 1:
			send(pc, map[string]interface{}{"jsonrpc": "2.0", "method": "H.Notif", "params": []interface{}{i}})
		case 2:
			send(pc, map[string]interface{}{"jsonrpc": "2.0", "id": i + 1, "method": "H.Stream", "params": []interface{}{i}})
		case 3:
			send(pc, map[string]interface{}{"jsonrpc": "2.0", "id": i + 1, "method": "H.LateStream", "params": []interface{}{i}})
		}
	}
	verif.Quiesce() // every handler is running and blocked on its context
	for i := 0; i < n; i++ {
		verif.Assert(h.ctxs[i] != nil && h.ctxs[i].Err() == nil, "handler-context-live-while-connected")
	}
	// whatever else the peer sent before (odd but harmless frames), the end of the connection is noticed
	switch verif.Choice("odd_frame_before_end", 8) {
	case 7:
		// a short call that re-uses the id of the first (still running or streaming) request
		send(pc, map[string]interface{}{"jsonrpc": "2.0", "id": 1, "method": "H.Quick", "params": []interface{}{0}})
	case 1:
		pc.Send([]byte{})
	case 2:
		pc.SendBinary([]byte{})
	case 3:
		pc.Send([]byte(`{"jsonrpc":`))
	case 4:
		pc.Send([]byte("  \n"))
	case 5:
		pc.Send([]byte(`{"jsonrpc":"2.0","id":99,"result":1}`))
	case 6:
		pc.SendPartial() // the beginning of a message that never completes
	}
	verif.Quiesce()
	cause := verif.Choice("cause", 3)
	switch cause {
	case 0:
		pc.CloseGraceful()
	case 1:
		pc.Abort()
	case 2:
		cancelBase()
	}
	verif.Quiesce()
	for i := 0; i < n; i++ {
		verif.Assert(h.ctxs[i] != nil && h.ctxs[i].Err() != nil, "connection-end-cancels-handler-context")
	}
	close(h.release) // lingering handlers return now (late responders)
	verif.Quiesce()
	for i := 0; i < n; i++ {
		verif.Assert(h.exited[i] == 1, "handler-returned")
	}
	verif.Class("cause=" + []string{"close-frame", "reset", "server-ctx"}[cause])
	left := verif.LeftoverLib()
	if left != 0 {
		verif.Class("leftover=" + verif.LeftoverDesc())
	}
	verif.Assert(left == 0, "no-library-goroutine-retained-for-dead-connection")
	if cause == 2 {
		pc.Abort()
	}
	verif.Reach("conn-end-done")
}

// HarnessStalledWriter: the peer stops reading, so a response write stalls while
// holding the write lock; then the server shuts the connection down (context
// cancel). The connection loop must still exit, close the socket and let every
// goroutine go.
func HarnessStalledWriter() {
	h := &H{ctxs: map[int]context.Context{}, release: make(chan struct{}), exited: map[int]int{}, linger: map[int]bool{}}
	srv := jsonrpc.NewServer()
	srv.Register("H", h)
	base, cancelBase := context.WithCancel(context.Background())
	defer cancelBase()
	pc := verif.DialRaw(srv, base)
	// with the engine's connection capacity bound (wscap=1) the second response cannot be flushed
	send(pc, map[string]interface{}{"jsonrpc": "2.0", "id": 1, "method": "H.Quick", "params": []interface{}{0}})
	send(pc, map[string]interface{}{"jsonrpc": "2.0", "id": 2, "method": "H.Quick", "params": []interface{}{1}})
	send(pc, map[string]interface{}{"jsonrpc": "2.0", "id": 3, "method": "H.Unary", "params": []interface{}{2}})
	verif.Quiesce()
	cancelBase()
	verif.Quiesce()
	verif.Assert(h.ctxs[2] != nil && h.ctxs[2].Err() != nil, "connection-end-cancels-handler-context")
	left := verif.LeftoverLib()
	if left != 0 {
		verif.Class("leftover=" + verif.LeftoverDesc())
	}
	verif.Assert(left == 0, "no-library-goroutine-retained-for-dead-connection")
	pc.Abort()
	verif.Reach("stalled-writer-done")
}
