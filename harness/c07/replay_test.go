package c07

import (
	"testing"

	"gjvharness/verif"
)

func TestReplay(t *testing.T) {
	verif.ReplayMain(map[string]func(){
		"HarnessCompositeElements":   HarnessCompositeElements,
		"HarnessConcurrentSubscribe": HarnessConcurrentSubscribe,
		"HarnessEndToEnd":            HarnessEndToEnd,
		"HarnessManyStreams":         HarnessManyStreams,
		"HarnessServerWire":          HarnessServerWire,
		"HarnessUnencodableElement":  HarnessUnencodableElement,
	})
}
