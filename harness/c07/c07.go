// Package c07: channel streams are ordered, lossless, duplicate-free and mutually independent.
package c07

import (
	"context"
	"encoding/json"
	"math"

	jsonrpc "github.com/filecoin-project/go-jsonrpc"

	"gjvharness/verif"
)

type H struct {
	vals  [][]int64 // per stream tag: the values to send
	early bool      // start sending before the handler returns
	// prefill: the handler returns a buffered channel that already holds all its values and is
	// already closed (a backlog the forwarder finds queued when it first looks at the channel)
	prefill bool
}

func (h *H) Sub(ctx context.Context, tag int) (<-chan int64, error) {
	vs := h.vals[tag]
	if h.prefill {
		full := make(chan int64, len(vs))
		for _, v := range vs {
			full <- v
		}
		close(full)
		return full, nil
	}
	out := make(chan int64)
	send := func() {
		defer close(out)
		for _, v := range vs {
			select {
			case out <- v:
			case <-ctx.Done():
				return
			}
		}
	}
	go send()
	if h.early {
		// give the producer a head start: it is already blocked on the first send when we return
		verif.Yield()
	}
	return out, nil
}

func (h *H) Plain(a int64) int64 { return a + 1 }

type frame struct {
	ID     interface{}       `json:"id"`
	Method string            `json:"method"`
	Params []json.RawMessage `json:"params"`
	Result json.RawMessage   `json:"result"`
	Error  json.RawMessage   `json:"error"`
}

func symVals(tag string, k int) []int64 {
	out := make([]int64, k)
	for i := range out {
		out[i] = verif.Int(tag + string(rune('0'+i)))
	}
	return out
}

// HarnessServerWire: on the wire, per subscription, the response announcing the
// channel precedes its first value, values appear in order exactly once, the close
// notification follows the last value, and two subscriptions get distinct channel ids.
func HarnessServerWire() {
	k := verif.Choice("k", verif.Bound("K", 2)+1)
	h := &H{vals: [][]int64{symVals("a", k), symVals("b", 1)}, early: verif.Bool("early")}
	srv := jsonrpc.NewServer()
	srv.Register("H", h)
	pc := verif.DialRaw(srv, nil)
	two := verif.Bool("two")
	pc.Send([]byte(`{"jsonrpc":"2.0","id":1,"method":"H.Sub","params":[0]}`))
	if two {
		pc.Send([]byte(`{"jsonrpc":"2.0","id":2,"method":"H.Sub","params":[1]}`))
	}
	want := 1 + k + 1
	if two {
		want += 3
	}
	chanOf := map[float64]float64{} // request id -> channel id
	got := map[float64][]int64{}    // channel id -> values
	closed := map[float64]int{}
	announced := map[float64]bool{}
	for i := 0; i < want; i++ {
		b, ok := pc.Recv()
		verif.Assert(ok, "connection-stays-up")
		if !ok {
			return
		}
		var f frame
		verif.Assert(json.Unmarshal(b, &f) == nil, "frame-is-json")
		switch f.Method {
		case "":
			id, _ := f.ID.(float64)
			var ch float64
			verif.Assert(f.Error == nil && json.Unmarshal(f.Result, &ch) == nil, "subscription-response-carries-channel-id")
			chanOf[id] = ch
			announced[ch] = true
		case "xrpc.ch.val":
			var ch float64
			var v int64
			json.Unmarshal(f.Params[0], &ch)
			json.Unmarshal(f.Params[1], &v)
			verif.Assert(announced[ch], "response-precedes-first-value")
			verif.Assert(closed[ch] == 0, "no-value-after-close")
			got[ch] = append(got[ch], v)
		case "xrpc.ch.close":
			var ch float64
			json.Unmarshal(f.Params[0], &ch)
			verif.Assert(announced[ch], "response-precedes-close")
			closed[ch]++
		}
	}
	check := func(id float64, vs []int64) {
		ch, ok := chanOf[id]
		verif.Assert(ok, "subscription-answered")
		verif.Assert(closed[ch] == 1, "closed-exactly-once")
		g := got[ch]
		verif.Assert(len(g) == len(vs), "all-values-on-the-wire")
		for i := 0; i < len(g) && i < len(vs); i++ {
			verif.Assert(g[i] == vs[i], "values-in-order")
		}
	}
	check(1, h.vals[0])
	if two {
		check(2, h.vals[1])
		verif.Assert(chanOf[1] != chanOf[2], "distinct-channel-ids")
	}
	pc.CloseGraceful()
	verif.Quiesce()
	verif.Reach("server-wire-done")
}

type C struct {
	Sub   func(ctx context.Context, tag int) (<-chan int64, error)
	Plain func(a int64) (int64, error)
}

func drain(ch <-chan int64, into *[]int64, done *int) {
	for v := range ch {
		*into = append(*into, v)
	}
	*done++
}

// HarnessEndToEnd: real client and real server. Two subscriptions and a unary
// call run concurrently; one consumer may stall; every reading consumer receives
// exactly its sequence and then the close.
func HarnessEndToEnd() {
	k1 := verif.Bound("K", 2)
	if verif.Bound("fixk", 0) == 0 {
		k1 = verif.Choice("k1", verif.Bound("K", 2)+1)
	}
	k2 := verif.Choice("k2", 2)
	h := &H{vals: [][]int64{symVals("a", k1), symVals("b", k2)}, early: verif.Bool("early"), prefill: verif.Bound("prefill", 0) == 1}
	srv := jsonrpc.NewServer()
	srv.Register("H", h)
	url, stop := verif.ServeWS(srv)
	var c C
	closer, err := jsonrpc.NewMergeClient(context.Background(), url, "H", []interface{}{&c}, nil)
	verif.Assert(err == nil, "client-created")
	stall := verif.Bool("stall_first")

	ctx1, cancel1 := context.WithCancel(context.Background())
	ch1, err1 := c.Sub(ctx1, 0)
	verif.Assert(err1 == nil && ch1 != nil, "subscribe-1")
	ch2, err2 := c.Sub(context.Background(), 1)
	verif.Assert(err2 == nil && ch2 != nil, "subscribe-2")
	var got1, got2 []int64
	var done1, done2 int
	if !stall {
		go drain(ch1, &got1, &done1)
	}
	go drain(ch2, &got2, &done2)
	var pv int64
	var perr error
	pdone := 0
	go func() { pv, perr = c.Plain(41); pdone++ }()
	verif.Quiesce()
	verif.Assert(pdone == 1 && perr == nil && pv == 42, "unary-call-not-blocked-by-streams")
	verif.Assert(done2 == 1, "second-stream-closed")
	verif.Assert(len(got2) == k2, "second-stream-lossless")
	for i := 0; i < len(got2) && i < k2; i++ {
		verif.Assert(got2[i] == h.vals[1][i], "second-stream-in-order")
	}
	if !stall {
		verif.Assert(done1 == 1, "first-stream-closed")
		verif.Assert(len(got1) == k1, "first-stream-lossless")
		for i := 0; i < len(got1) && i < k1; i++ {
			verif.Assert(got1[i] == h.vals[0][i], "first-stream-in-order")
		}
	}
	cancel1()
	closer()
	stop()
	verif.Quiesce()
	verif.Reach("end-to-end-done")
}

// CH hands out streams whose producers are driven step by step by the harness.
type CH struct {
	feed map[int]chan int64 // values to forward on stream tag; closing it closes the stream
	gate chan struct{}      // if set, handlers return only once it is closed (all at the same instant)
}

func (h *CH) Sub(ctx context.Context, tag int) (<-chan int64, error) {
	out := make(chan int64)
	in := h.feed[tag]
	if h.gate != nil {
		<-h.gate
	}
	go func() {
		defer close(out)
		for v := range in {
			select {
			case out <- v:
			case <-ctx.Done():
				return
			}
		}
	}()
	return out, nil
}

// HarnessManyStreams: S (3 or 4) subscriptions on one connection; the harness
// chooses which stream is closed first and then sends on the survivors: values
// and closes keep reaching the channel id announced for their own subscription.
func HarnessManyStreams() {
	n := 3 + verif.Choice("extra_stream", verif.Bound("S", 3)-2)
	h := &CH{feed: map[int]chan int64{}}
	for i := 0; i < n; i++ {
		h.feed[i] = make(chan int64)
	}
	srv := jsonrpc.NewServer()
	srv.Register("H", h)
	pc := verif.DialRaw(srv, nil)
	chanOf := map[int]float64{}
	for i := 0; i < n; i++ {
		b, _ := json.Marshal(map[string]interface{}{"jsonrpc": "2.0", "id": 100 + i, "method": "H.Sub", "params": []interface{}{i}})
		pc.Send(b)
		rb, ok := pc.Recv()
		verif.Assert(ok, "subscription-answered")
		var f frame
		json.Unmarshal(rb, &f)
		id, _ := f.ID.(float64)
		verif.Assert(f.Method == "" && id == float64(100+i), "response-for-this-subscription")
		var ch float64
		json.Unmarshal(f.Result, &ch)
		chanOf[i] = ch
	}
	first := verif.Choice("close_first", n)
	close(h.feed[first])
	expectFrame := func(method string, tag int, val int64) {
		rb, ok := pc.Recv()
		verif.Assert(ok, "connection-stays-up")
		if !ok {
			return
		}
		var f frame
		json.Unmarshal(rb, &f)
		verif.Assert(f.Method == method, "expected-frame-kind")
		var ch float64
		if len(f.Params) > 0 {
			json.Unmarshal(f.Params[0], &ch)
		}
		verif.Assert(ch == chanOf[tag], "frame-carries-its-own-channel-id")
		if method == "xrpc.ch.val" && len(f.Params) > 1 {
			var v int64
			json.Unmarshal(f.Params[1], &v)
			verif.Assert(v == val, "value-intact")
		}
	}
	expectFrame("xrpc.ch.close", first, 0)
	// every survivor sends a distinct symbolic value, then closes, one after the other
	for i := 0; i < n; i++ {
		if i == first {
			continue
		}
		v := verif.Int("v" + string(rune('0'+i)))
		h.feed[i] <- v
		expectFrame("xrpc.ch.val", i, v)
	}
	second := verif.Choice("close_second", n)
	for k := 0; k < n; k++ {
		i := (second + k) % n
		if i == first {
			continue
		}
		close(h.feed[i])
		expectFrame("xrpc.ch.close", i, 0)
	}
	pc.CloseGraceful()
	verif.Quiesce()
	verif.Reach("many-streams-done")
}

// HarnessConcurrentSubscribe: S subscription requests are on the wire back to back, so their
// handlers return (and their channels are registered) concurrently. Every subscription is
// announced under its own channel id, and the values and the close of each stream are sent
// under the id announced for it.
func HarnessConcurrentSubscribe() {
	n := verif.Bound("S", 2)
	h := &CH{feed: map[int]chan int64{}, gate: make(chan struct{})}
	for i := 0; i < n; i++ {
		h.feed[i] = make(chan int64)
	}
	srv := jsonrpc.NewServer()
	srv.Register("H", h)
	pc := verif.DialRaw(srv, nil)
	for i := 0; i < n; i++ {
		b, _ := json.Marshal(map[string]interface{}{"jsonrpc": "2.0", "id": 100 + i, "method": "H.Sub", "params": []interface{}{i}})
		pc.Send(b)
	}
	verif.Quiesce() // every handler is running
	close(h.gate)   // ... and they all return at the same instant
	chanOf := map[int]float64{}
	for k := 0; k < n; k++ {
		rb, ok := pc.Recv()
		verif.Assert(ok, "subscription-answered")
		var f frame
		json.Unmarshal(rb, &f)
		id, _ := f.ID.(float64)
		i := int(id) - 100
		verif.Assert(f.Method == "" && i >= 0 && i < n, "response-for-a-subscription")
		_, dup := chanOf[i]
		verif.Assert(!dup, "one-response-per-subscription")
		var ch float64
		json.Unmarshal(f.Result, &ch)
		for _, other := range chanOf {
			verif.Assert(other != ch, "concurrent-subscriptions-get-distinct-channel-ids")
		}
		chanOf[i] = ch
	}
	for i := 0; i < n; i++ {
		v := verif.Int("v" + string(rune('0'+i)))
		h.feed[i] <- v
		rb, ok := pc.Recv()
		verif.Assert(ok, "connection-stays-up")
		var f frame
		json.Unmarshal(rb, &f)
		var ch float64
		var got int64
		if len(f.Params) > 1 {
			json.Unmarshal(f.Params[0], &ch)
			json.Unmarshal(f.Params[1], &got)
		}
		verif.Assert(f.Method == "xrpc.ch.val" && ch == chanOf[i] && got == v, "value-sent-under-its-own-channel-id")
	}
	for i := 0; i < n; i++ {
		close(h.feed[i])
		rb, ok := pc.Recv()
		verif.Assert(ok, "connection-stays-up")
		var f frame
		json.Unmarshal(rb, &f)
		var ch float64
		if len(f.Params) > 0 {
			json.Unmarshal(f.Params[0], &ch)
		}
		verif.Assert(f.Method == "xrpc.ch.close" && ch == chanOf[i], "close-sent-under-its-own-channel-id")
	}
	pc.CloseGraceful()
	verif.Quiesce()
	verif.Reach("concurrent-subscribe-done")
}

// FH streams floats; an element such as NaN cannot be encoded as JSON.
type FH struct {
	CH
	ffeed chan float64
}

func (h *FH) FSub(ctx context.Context) (<-chan float64, error) {
	out := make(chan float64)
	go func() {
		defer close(out)
		for v := range h.ffeed {
			select {
			case out <- v:
			case <-ctx.Done():
				return
			}
		}
	}()
	return out, nil
}

// HarnessUnencodableElement: one subscription's handler sends an element that
// encoding/json cannot encode (NaN). Whatever becomes of that element, the
// other subscription on the connection keeps receiving its values in order and
// its close, and unary calls keep working.
func HarnessUnencodableElement() {
	h := &FH{CH: CH{feed: map[int]chan int64{0: make(chan int64)}}, ffeed: make(chan float64)}
	srv := jsonrpc.NewServer()
	srv.Register("H", h)
	pc := verif.DialRaw(srv, nil)
	recv := func() frame {
		rb, ok := pc.Recv()
		verif.Assert(ok, "connection-stays-up")
		var f frame
		json.Unmarshal(rb, &f)
		return f
	}
	pc.Send([]byte(`{"jsonrpc":"2.0","id":1,"method":"H.Sub","params":[0]}`))
	f := recv()
	var chInt float64
	json.Unmarshal(f.Result, &chInt)
	pc.Send([]byte(`{"jsonrpc":"2.0","id":2,"method":"H.FSub","params":[]}`))
	f = recv()
	var chFloat float64
	json.Unmarshal(f.Result, &chFloat)
	verif.Assert(chInt != chFloat, "distinct-channel-ids")
	bad := verif.Choice("unencodable", 3)
	h.ffeed <- []float64{math.NaN(), math.Inf(1), math.Inf(-1)}[bad]
	verif.Quiesce()
	// the other stream is unaffected
	for k := 0; k < 2; k++ {
		v := verif.Int("v" + string(rune('0'+k)))
		h.feed[0] <- v
		f = recv()
		var ch float64
		var got int64
		if len(f.Params) > 1 {
			json.Unmarshal(f.Params[0], &ch)
			json.Unmarshal(f.Params[1], &got)
		}
		verif.Assert(f.Method == "xrpc.ch.val" && ch == chInt && got == v, "other-stream-keeps-delivering-in-order")
	}
	close(h.feed[0])
	f = recv()
	var ch float64
	if len(f.Params) > 0 {
		json.Unmarshal(f.Params[0], &ch)
	}
	verif.Assert(f.Method == "xrpc.ch.close" && ch == chInt, "other-stream-is-closed")
	close(h.ffeed)
	pc.CloseGraceful()
	verif.Quiesce()
	verif.Reach("unencodable-element-done")
}

type SH struct {
	slices [][]int64
	maps   []map[string]int64
}

func (h *SH) Slices(ctx context.Context) (<-chan []int64, error) {
	out := make(chan []int64)
	go func() {
		defer close(out)
		for _, v := range h.slices {
			select {
			case out <- v:
			case <-ctx.Done():
				return
			}
		}
	}()
	return out, nil
}

func (h *SH) Maps(ctx context.Context) (<-chan map[string]int64, error) {
	out := make(chan map[string]int64)
	go func() {
		defer close(out)
		for _, v := range h.maps {
			select {
			case out <- v:
			case <-ctx.Done():
				return
			}
		}
	}()
	return out, nil
}

type SC struct {
	Slices func(ctx context.Context) (<-chan []int64, error)
	Maps   func(ctx context.Context) (<-chan map[string]int64, error)
}

// HarnessCompositeElements: streams of slices and of maps; the consumer keeps
// every value it received: each stays exactly what the handler sent, whatever
// arrives later (no sharing of decode storage between stream elements).
func HarnessCompositeElements() {
	a, b, c := verif.Int("a"), verif.Int("b"), verif.Int("c")
	h := &SH{slices: [][]int64{{a, 1}, {b, 2}, {c}}, maps: []map[string]int64{{"x": a}, {"y": b}, {"z": c}}}
	withNulls := verif.Bool("elements_that_encode_as_null")
	if withNulls {
		// nil batches / nil maps are elements too: each is delivered (as a nil value), none is skipped
		h.slices = [][]int64{{a, 1}, nil, {b, 2}, nil, {c}}
		h.maps = []map[string]int64{{"x": a}, nil, {"y": b}, nil, {"z": c}}
	}
	srv := jsonrpc.NewServer()
	srv.Register("H", h)
	url, stop := verif.ServeWS(srv)
	var cl SC
	closer, err := jsonrpc.NewMergeClient(context.Background(), url, "H", []interface{}{&cl}, nil)
	verif.Assert(err == nil, "client-created")
	if verif.Bool("maps") {
		ch, e := cl.Maps(context.Background())
		verif.Assert(e == nil && ch != nil, "subscribe")
		var got []map[string]int64
		nils := 0
		for v := range ch {
			if withNulls && v == nil {
				nils++
				continue
			}
			got = append(got, v)
		}
		verif.Assert(!withNulls || nils == 2, "null-elements-are-delivered-too")
		verif.Assert(len(got) == 3, "all-values-delivered")
		if len(got) == 3 {
			verif.Assert(len(got[0]) == 1 && got[0]["x"] == a, "first-map-intact")
			verif.Assert(len(got[1]) == 1 && got[1]["y"] == b, "second-map-intact")
			verif.Assert(len(got[2]) == 1 && got[2]["z"] == c, "third-map-intact")
		}
	} else {
		ch, e := cl.Slices(context.Background())
		verif.Assert(e == nil && ch != nil, "subscribe")
		var got [][]int64
		nils := 0
		for v := range ch {
			if withNulls && v == nil {
				nils++
				continue
			}
			got = append(got, v)
		}
		verif.Assert(!withNulls || nils == 2, "null-elements-are-delivered-too")
		verif.Assert(len(got) == 3, "all-values-delivered")
		if len(got) == 3 {
			verif.Assert(len(got[0]) == 2 && got[0][0] == a && got[0][1] == 1, "first-slice-intact")
			verif.Assert(len(got[1]) == 2 && got[1][0] == b && got[1][1] == 2, "second-slice-intact")
			verif.Assert(len(got[2]) == 1 && got[2][0] == c, "third-slice-intact")
		}
	}
	closer()
	stop()
	verif.Quiesce()
	verif.Reach("composite-elements-done")
}
