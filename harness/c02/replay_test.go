package c02

import (
	"testing"

	"gjvharness/verif"
)

func TestReplay(t *testing.T) {
	verif.ReplayMain(map[string]func(){
		"HarnessCancelDuringTraffic":        HarnessCancelDuringTraffic,
		"HarnessUnencodableCallAmongOthers": HarnessUnencodableCallAmongOthers,
		"HarnessWSCorrelation":              HarnessWSCorrelation,
	})
}
