// Package c02: each concurrent call completes exactly once and with its own response.
package c02

import (
	"context"
	"encoding/json"

	jsonrpc "github.com/filecoin-project/go-jsonrpc"

	"gjvharness/verif"
)

type C struct {
	Echo func(ctx context.Context, tok int64) (int64, error)
}

// C2 is a second proxy struct filled by the same NewMergeClient call (same connection).
type C2 struct {
	Echo2 func(ctx context.Context, tok int64) (int64, error) `rpc_method:"NS.Echo"`
}

type wireReq struct {
	ID     json.RawMessage   `json:"id"`
	Method string            `json:"method"`
	Params []json.RawMessage `json:"params"`
}

type result struct {
	returns int
	val     int64
	err     error
}

// echoPeer answers requests in an order chosen by the harness: it first collects
// n requests, then answers them following perm.
func echoPeer(l *verif.Listener, n int, perm []int, extra int) {
	verif.Daemon()
	pc := l.Accept()
	var reqs []wireReq
	for len(reqs) < n {
		b, ok := pc.Recv()
		if !ok {
			return
		}
		var r wireReq
		if json.Unmarshal(b, &r) != nil || r.ID == nil {
			continue
		}
		reqs = append(reqs, r)
	}
	send := func(id json.RawMessage, res json.RawMessage) {
		b, _ := json.Marshal(map[string]interface{}{"jsonrpc": "2.0", "id": id, "result": res})
		pc.Send(b)
	}
	for i, k := range perm {
		r := reqs[k]
		send(r.ID, r.Params[0])
		if i == 0 {
			// adversarial extras after the first genuine answer
			switch extra {
			case 1: // duplicate of the response just sent
				send(r.ID, json.RawMessage("111"))
			case 2: // response to an id never issued
				send(json.RawMessage("987654"), json.RawMessage("222"))
			case 3: // same digits, other JSON type
				send(json.RawMessage(`"`+string(r.ID)+`"`), json.RawMessage("333"))
			case 4: // null id
				send(json.RawMessage("null"), json.RawMessage("444"))
			}
		}
	}
	// keep reading so that the connection stays healthy until the client closes
	for {
		if _, ok := pc.Recv(); !ok {
			return
		}
	}
}

var perms2 = [][]int{{0, 1}, {1, 0}}
var perms3 = [][]int{{0, 1, 2}, {0, 2, 1}, {1, 0, 2}, {1, 2, 0}, {2, 0, 1}, {2, 1, 0}}

// HarnessWSCorrelation: N concurrent callers with distinct tokens on one WS
// client; the peer answers in every order, optionally with adversarial extras.
func HarnessWSCorrelation() {
	n := verif.Bound("N", 2)
	var perm []int
	if n == 2 {
		perm = perms2[verif.Choice("perm", 2)]
	} else {
		perm = perms3[verif.Choice("perm", 6)]
	}
	extra := verif.Choice("extra", verif.Bound("extras", 5))
	l := verif.ListenWS()
	go echoPeer(l, n, perm, extra)
	var c C
	var c2 C2
	closer, err := jsonrpc.NewMergeClient(context.Background(), l.URL(), "NS", []interface{}{&c, &c2}, nil)
	verif.Assert(err == nil, "client-created")
	res := make([]result, n)
	toks := make([]int64, n)
	for i := 0; i < n; i++ {
		toks[i] = verif.Int("tok" + string(rune('0'+i)))
		for j := 0; j < i; j++ {
			verif.Assume(toks[i] != toks[j])
		}
	}
	for i := 0; i < n; i++ {
		i := i
		go func() {
			call := c.Echo
			if i%2 == 1 {
				call = c2.Echo2 // odd callers go through the second proxy struct
			}
			v, err := call(context.Background(), toks[i])
			res[i].returns++
			res[i].val, res[i].err = v, err
		}()
	}
	verif.Quiesce()
	for i := 0; i < n; i++ {
		verif.Assert(res[i].returns == 1, "call-returns-exactly-once")
		verif.Assert(res[i].err == nil, "call-succeeds")
		verif.Assert(res[i].val == toks[i], "call-gets-its-own-result")
	}
	closer()
	verif.Quiesce()
	verif.Assert(verif.LeftoverLib() == 0, "no-library-goroutine-left")
	verif.Reach("correlation-done")
}

// HarnessCancelDuringTraffic: calls are in flight and being issued on one client
// while the context of one of them is cancelled at an arbitrary instant; the peer
// answers every request it receives straight away. Every call returns exactly
// once: the cancelled one with its own result or an error, every other one with
// its own result.
func HarnessCancelDuringTraffic() {
	l := verif.ListenWS()
	go func() {
		verif.Daemon()
		pc := l.Accept()
		for {
			b, ok := pc.Recv()
			if !ok {
				return
			}
			var r wireReq
			if json.Unmarshal(b, &r) != nil || r.ID == nil || r.Method != "NS.Echo" {
				continue
			}
			rb, _ := json.Marshal(map[string]interface{}{"jsonrpc": "2.0", "id": r.ID, "result": r.Params[0]})
			pc.Send(rb)
		}
	}()
	var c C
	closer, err := jsonrpc.NewMergeClient(context.Background(), l.URL(), "NS", []interface{}{&c}, nil, jsonrpc.WithNoReconnect())
	verif.Assert(err == nil, "client-created")
	n := verif.Bound("N", 3)
	res := make([]result, n)
	ctx0, cancel0 := context.WithCancel(context.Background())
	for i := 0; i < n; i++ {
		i := i
		go func() {
			ctx := context.Background()
			if i == 0 {
				ctx = ctx0
			} else {
				verif.AtStep("issue"+string(rune('0'+i)), verif.Bound("steps", 12))
			}
			v, err := c.Echo(ctx, int64(10+i))
			res[i].returns++
			res[i].val, res[i].err = v, err
		}()
	}
	go func() {
		verif.AtStep("cancel_at", verif.Bound("steps", 12))
		cancel0()
	}()
	verif.Quiesce()
	for i := 0; i < n; i++ {
		verif.Assert(res[i].returns == 1, "every-call-returns-exactly-once")
		if i == 0 {
			// the peer answers every request, so even the cancelled call gets the response produced for it
			verif.Assert(res[i].err == nil && res[i].val == 10, "cancelled-call-still-gets-the-response-to-its-own-request")
		} else {
			verif.Assert(res[i].err == nil && res[i].val == int64(10+i), "other-calls-get-their-own-results")
		}
	}
	closer()
	verif.Quiesce()
	verif.Reach("cancel-during-traffic-done")
}

type CR struct {
	Echo func(ctx context.Context, tok int64) (int64, error)
	Fwd  func(ctx context.Context, p jsonrpc.RawParams) (int64, error) `rpc_method:"NS.Echo"`
}

// HarnessUnencodableCallAmongOthers: while N ordinary calls are in flight, another
// call is issued whose request cannot be encoded (raw params that are not JSON).
// Whatever happens to that call, the connection is healthy and the ordinary calls
// return exactly once with the responses the peer then produces for them.
func HarnessUnencodableCallAmongOthers() {
	n := verif.Bound("N", 2)
	l := verif.ListenWS()
	answer := make(chan struct{})
	go func() {
		verif.Daemon()
		pc := l.Accept()
		var reqs []wireReq
		for len(reqs) < n {
			b, ok := pc.Recv()
			if !ok {
				return
			}
			var r wireReq
			if json.Unmarshal(b, &r) != nil || r.ID == nil {
				continue
			}
			reqs = append(reqs, r)
		}
		<-answer
		for i := len(reqs) - 1; i >= 0; i-- {
			rb, _ := json.Marshal(map[string]interface{}{"jsonrpc": "2.0", "id": reqs[i].ID, "result": reqs[i].Params[0]})
			pc.Send(rb)
		}
		for {
			if _, ok := pc.Recv(); !ok {
				return
			}
		}
	}()
	var c CR
	closer, err := jsonrpc.NewMergeClient(context.Background(), l.URL(), "NS", []interface{}{&c}, nil, jsonrpc.WithNoReconnect())
	verif.Assert(err == nil, "client-created")
	res := make([]result, n)
	for i := 0; i < n; i++ {
		i := i
		go func() {
			v, err := c.Echo(context.Background(), int64(100+i))
			res[i].returns++
			res[i].val, res[i].err = v, err
		}()
	}
	verif.Quiesce() // all ordinary calls are at the peer
	go func() { c.Fwd(context.Background(), jsonrpc.RawParams(`{"a":`)) }()
	verif.Quiesce()
	close(answer)
	verif.Quiesce()
	for i := 0; i < n; i++ {
		verif.Assert(res[i].returns == 1, "every-ordinary-call-returns-exactly-once")
		verif.Assert(res[i].err == nil && res[i].val == int64(100+i), "ordinary-calls-get-the-responses-produced-for-them")
	}
	closer()
	verif.Quiesce()
	verif.Reach("unencodable-call-done")
}
