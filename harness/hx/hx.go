// Package hx: shared harness plumbing (in-memory transports) written against public APIs only.
package hx

import (
	"bytes"
	"context"
	"io"
	"net/http"

	jsonrpc "github.com/filecoin-project/go-jsonrpc"
)

// Recorder is a minimal http.ResponseWriter.
type Recorder struct {
	Status int
	Hdr    http.Header
	Buf    bytes.Buffer
}

func (r *Recorder) Header() http.Header         { return r.Hdr }
func (r *Recorder) Write(b []byte) (int, error) { return r.Buf.Write(b) }
func (r *Recorder) WriteHeader(s int) {
	if r.Status == 0 {
		r.Status = s
	}
}

// HandlerTransport serves every request by calling the handler in-process.
type HandlerTransport struct {
	H        http.Handler
	Requests int
}

func (t *HandlerTransport) RoundTrip(r *http.Request) (*http.Response, error) {
	t.Requests++
	rec := &Recorder{Hdr: http.Header{}}
	t.H.ServeHTTP(rec, r)
	st := rec.Status
	if st == 0 {
		st = 200
	}
	return &http.Response{StatusCode: st, Status: http.StatusText(st), Header: rec.Hdr, Body: io.NopCloser(&rec.Buf), Request: r}, nil
}

// HTTPClient returns an *http.Client whose transport is the handler itself.
func HTTPClient(h http.Handler) *http.Client {
	return &http.Client{Transport: &HandlerTransport{H: h}}
}

// CustomDo is a doRequest function for jsonrpc.NewCustomClient backed by srv.HandleRequest.
func CustomDo(srv *jsonrpc.RPCServer) func(ctx context.Context, body []byte) (io.ReadCloser, error) {
	return func(ctx context.Context, body []byte) (io.ReadCloser, error) {
		var out bytes.Buffer
		srv.HandleRequest(ctx, bytes.NewReader(body), &out)
		return io.NopCloser(&out), nil
	}
}
