package c20

import (
	"testing"

	"gjvharness/verif"
)

func TestReplay(t *testing.T) {
	verif.ReplayMain(map[string]func(){
		"HarnessCloseEarly":   HarnessCloseEarly,
		"HarnessLateRead":     HarnessLateRead,
		"HarnessReader":       HarnessReader,
		"HarnessSameClient":   HarnessSameClient,
		"HarnessSlowProducer": HarnessSlowProducer,
		"HarnessTwoCalls":     HarnessTwoCalls,
	})
}
