// Package c20: reader parameters stream byte-exact and honour the io.Reader contract.
package c20

import (
	"bytes"
	"context"
	"io"

	jsonrpc "github.com/filecoin-project/go-jsonrpc"
	"github.com/filecoin-project/go-jsonrpc/httpio"

	"gjvharness/hx"
	"gjvharness/verif"
)

type H struct {
	pattern int
	got     []byte
	errs    []bool // per read after the data: was it io.EOF
	other   int    // errors that are neither nil nor EOF
	panics  int
}

// Consume reads the stream following the configured pattern and records what it saw.
func (h *H) Consume(ctx context.Context, r io.Reader) (int, error) {
	switch h.pattern {
	case 0: // ReadAll
		b, err := io.ReadAll(r)
		if err != nil {
			h.other++
		}
		h.got = b
	default: // byte at a time
		buf := make([]byte, 1)
		for i := 0; i < 64; i++ {
			n, err := r.Read(buf)
			if n > 0 {
				h.got = append(h.got, buf[0])
			}
			if err == io.EOF {
				h.errs = append(h.errs, true)
				break
			}
			if err != nil {
				h.other++
				break
			}
		}
	}
	switch h.pattern {
	case 2: // read past EOF, twice
		for i := 0; i < 2; i++ {
			buf := make([]byte, 4)
			n, err := r.Read(buf)
			h.errs = append(h.errs, n == 0 && err == io.EOF)
		}
	case 3: // explicit close after EOF
		if c, ok := r.(io.Closer); ok {
			c.Close()
		}
	}
	return len(h.got), nil
}

// CloseEarly closes the stream without reading it all.
func (h *H) CloseEarly(ctx context.Context, r io.Reader) (int, error) {
	buf := make([]byte, 1)
	n, _ := r.Read(buf)
	if n > 0 {
		h.got = append(h.got, buf[0])
	}
	if c, ok := r.(io.Closer); ok {
		c.Close()
	}
	return len(h.got), nil
}

type C struct {
	Consume    func(ctx context.Context, r io.Reader) (int, error)
	CloseEarly func(ctx context.Context, r io.Reader) (int, error)
}

func setup(h *H) (*C, func()) {
	upload, dec := httpio.ReaderParamDecoder()
	srv := jsonrpc.NewServer(dec)
	srv.Register("R", h)
	base := verif.MountHTTP(upload)
	var c C
	closer, err := jsonrpc.NewMergeClient(context.Background(), "http://server/rpc", "R", []interface{}{&c}, nil,
		jsonrpc.WithHTTPClient(hx.HTTPClient(srv)), httpio.ReaderParamEncoder(base+"/upload"))
	verif.Assert(err == nil, "client-created")
	return &c, closer
}

// dataEOFReader hands out its last bytes together with io.EOF, as the io.Reader contract allows
// (http response bodies, section readers, flate/tar readers do).
type dataEOFReader struct {
	b    []byte
	step int
}

func (r *dataEOFReader) Read(p []byte) (int, error) {
	if len(r.b) == 0 {
		return 0, io.EOF
	}
	n := r.step
	if n <= 0 || n > len(r.b) {
		n = len(r.b)
	}
	if n > len(p) {
		n = len(p)
	}
	copy(p, r.b[:n])
	r.b = r.b[n:]
	if len(r.b) == 0 {
		return n, io.EOF
	}
	return n, nil
}

// HarnessReader: one call carrying a reader of L arbitrary bytes; every read pattern.
func HarnessReader() {
	h := &H{pattern: verif.Choice("pattern", 4)}
	c, closer := setup(h)
	defer closer()
	payload := verif.Bytes("payload", verif.Bound("L", 2))
	var src io.Reader = bytes.NewReader(payload)
	switch verif.Choice("reader_kind", 4) {
	case 3: // a seekable reader the caller has already read a header from: only the rest is the stream
		br := bytes.NewReader(append([]byte{verif.Byte("hdr")}, payload...))
		var one [1]byte
		br.Read(one[:])
		src = br
	case 1: // the last bytes arrive together with EOF
		src = &dataEOFReader{b: append([]byte(nil), payload...)}
	case 2: // one byte per Read, the last one together with EOF
		src = &dataEOFReader{b: append([]byte(nil), payload...), step: 1}
	}
	n, err := c.Consume(context.Background(), src)
	verif.Assert(err == nil, "call-succeeds-no-handler-panic")
	verif.Assert(n == len(payload) && len(h.got) == len(payload), "handler-sees-all-bytes")
	for i := 0; i < len(h.got) && i < len(payload); i++ {
		verif.Assert(h.got[i] == payload[i], "bytes-exact-in-order")
	}
	verif.Assert(h.other == 0, "no-spurious-read-error")
	for _, eof := range h.errs {
		verif.Assert(eof, "eof-reported-consistently")
	}
	verif.Quiesce()
	verif.Assert(!verif.Crashed(), "process-survives")
	verif.Assert(verif.LeftoverLib() == 0, "upload-request-completes-after-consumption")
	verif.Reach("reader-done")
}

// HarnessSlowProducer: the caller's reader delivers its bytes in two instalments with an
// arbitrarily long pause in between (every timer the library armed may fire during it). The
// handler still observes the whole byte sequence followed by end-of-file, and the call succeeds.
func HarnessSlowProducer() {
	h := &H{pattern: 0}
	c, closer := setup(h)
	defer closer()
	p1 := verif.Bytes("p1", verif.Bound("L", 1))
	p2 := verif.Bytes("p2", verif.Bound("L", 1))
	pr, pw := io.Pipe()
	resume := make(chan struct{})
	go func() {
		pw.Write(p1)
		<-resume
		pw.Write(p2)
		pw.Close()
	}()
	ret := 0
	var n int
	var err error
	go func() { n, err = c.Consume(context.Background(), pr); ret++ }()
	verif.Quiesce() // the long pause: nothing moves until the producer resumes
	verif.Assert(ret == 0, "call-waits-for-the-rest-of-the-stream")
	close(resume)
	verif.Quiesce()
	verif.Assert(ret == 1 && err == nil, "call-succeeds-after-slow-stream")
	want := string(p1) + string(p2)
	verif.Assert(n == len(want) && string(h.got) == want, "handler-sees-all-bytes-of-a-slow-stream")
	verif.Assert(h.other == 0, "no-spurious-read-error")
	verif.Assert(verif.LeftoverLib() == 0, "upload-request-completes-after-consumption")
	verif.Reach("slow-producer-done")
}

// HarnessCloseEarly: the handler closes the reader before consuming everything.
func HarnessCloseEarly() {
	h := &H{}
	c, closer := setup(h)
	defer closer()
	payload := verif.Bytes("payload", verif.Bound("L", 2))
	_, err := c.CloseEarly(context.Background(), bytes.NewReader(payload))
	verif.Assert(err == nil, "call-succeeds-no-handler-panic")
	verif.Quiesce()
	verif.Assert(verif.LeftoverLib() == 0, "upload-request-completes-after-close")
	verif.Reach("close-early-done")
}

// HarnessTwoCalls: two concurrent reader-carrying calls never see each other's bytes.
func HarnessTwoCalls() {
	h1, h2 := &H{}, &H{}
	upload, dec := httpio.ReaderParamDecoder()
	srv := jsonrpc.NewServer(dec)
	srv.Register("A", h1)
	srv.Register("B", h2)
	base := verif.MountHTTP(upload)
	var ca, cb C
	cl1, err1 := jsonrpc.NewMergeClient(context.Background(), "http://server/rpc", "A", []interface{}{&ca}, nil,
		jsonrpc.WithHTTPClient(hx.HTTPClient(srv)), httpio.ReaderParamEncoder(base+"/upload"))
	cl2, err2 := jsonrpc.NewMergeClient(context.Background(), "http://server/rpc", "B", []interface{}{&cb}, nil,
		jsonrpc.WithHTTPClient(hx.HTTPClient(srv)), httpio.ReaderParamEncoder(base+"/upload"))
	verif.Assert(err1 == nil && err2 == nil, "clients-created")
	defer cl1()
	defer cl2()
	p1 := verif.Bytes("p1", 2)
	p2 := verif.Bytes("p2", 2)
	done := 0
	var e1, e2 error
	go func() { _, e1 = ca.Consume(context.Background(), bytes.NewReader(p1)); done++ }()
	go func() { _, e2 = cb.Consume(context.Background(), bytes.NewReader(p2)); done++ }()
	verif.Quiesce()
	verif.Assert(done == 2 && e1 == nil && e2 == nil, "both-calls-return")
	verif.Assert(string(h1.got) == string(p1), "first-call-own-bytes")
	verif.Assert(string(h2.got) == string(p2), "second-call-own-bytes")
	verif.Reach("two-calls-done")
}

type LH struct {
	aDrained chan struct{}
	bHolds   chan struct{}
	aDone    chan struct{}
	late     int
	lateErr  error
	gotB     []byte
}

// Linger drains its reader, waits until the other call holds its reader, then reads once more.
func (h *LH) Linger(ctx context.Context, r io.Reader) (int, error) {
	b, _ := io.ReadAll(r)
	close(h.aDrained)
	<-h.bHolds
	buf := make([]byte, 8)
	h.late, h.lateErr = r.Read(buf)
	close(h.aDone)
	return len(b), nil
}

// Plain signals that it holds its reader, waits for the late read of the other call, then reads everything.
func (h *LH) Plain(ctx context.Context, r io.Reader) (int, error) {
	close(h.bHolds)
	<-h.aDone
	b, _ := io.ReadAll(r)
	h.gotB = b
	return len(b), nil
}

type LC struct {
	Linger func(ctx context.Context, r io.Reader) (int, error)
	Plain  func(ctx context.Context, r io.Reader) (int, error)
}

// HarnessLateRead: a read after end-of-stream on one call, made while another
// reader-carrying call is in progress, returns no data, and the other call still
// sees exactly its own bytes.
func HarnessLateRead() {
	h := &LH{aDrained: make(chan struct{}), bHolds: make(chan struct{}), aDone: make(chan struct{})}
	upload, dec := httpio.ReaderParamDecoder()
	srv := jsonrpc.NewServer(dec)
	srv.Register("R", h)
	base := verif.MountHTTP(upload)
	var c LC
	closer, err := jsonrpc.NewMergeClient(context.Background(), "http://server/rpc", "R", []interface{}{&c}, nil,
		jsonrpc.WithHTTPClient(hx.HTTPClient(srv)), httpio.ReaderParamEncoder(base+"/upload"))
	verif.Assert(err == nil, "client-created")
	defer closer()
	pa := verif.Bytes("pa", 2)
	pb := verif.Bytes("pb", 3)
	done := 0
	go func() { c.Linger(context.Background(), bytes.NewReader(pa)); done++ }()
	<-h.aDrained
	verif.Quiesce() // the first upload request has completed; only now does the second call start
	go func() { c.Plain(context.Background(), bytes.NewReader(pb)); done++ }()
	verif.Quiesce()
	verif.Assert(done == 2, "both-calls-return")
	verif.Assert(h.late == 0 && h.lateErr != nil, "read-after-end-of-stream-returns-no-data")
	verif.Assert(string(h.gotB) == string(pb), "other-call-sees-exactly-its-own-bytes")
	verif.Reach("late-read-done")
}

type TH struct {
	gotA, gotB []byte
}

func (h *TH) One(ctx context.Context, r io.Reader) (int, error) {
	b, err := io.ReadAll(r)
	h.gotA = b
	return len(b), err
}
func (h *TH) Other(ctx context.Context, r io.Reader) (int, error) {
	b, err := io.ReadAll(r)
	h.gotB = b
	return len(b), err
}
func (h *TH) Cat(ctx context.Context, a, b io.Reader) (int, error) {
	x, err := io.ReadAll(a)
	if err != nil {
		return 0, err
	}
	y, err := io.ReadAll(b)
	h.gotA, h.gotB = x, y
	return len(x) + len(y), err
}

type TC struct {
	One   func(ctx context.Context, r io.Reader) (int, error)
	Other func(ctx context.Context, r io.Reader) (int, error)
	Cat   func(ctx context.Context, a, b io.Reader) (int, error)
}

// HarnessSameClient: two reader parameters travelling through ONE client (two
// concurrent calls, or one call with two readers) reach the right handler
// parameter byte-exactly; nothing hangs.
func HarnessSameClient() {
	h := &TH{}
	upload, dec := httpio.ReaderParamDecoder()
	srv := jsonrpc.NewServer(dec)
	srv.Register("R", h)
	base := verif.MountHTTP(upload)
	var c TC
	closer, err := jsonrpc.NewMergeClient(context.Background(), "http://server/rpc", "R", []interface{}{&c}, nil,
		jsonrpc.WithHTTPClient(hx.HTTPClient(srv)), httpio.ReaderParamEncoder(base+"/upload"))
	verif.Assert(err == nil, "client-created")
	defer closer()
	p1 := verif.Bytes("p1", 2)
	p2 := verif.Bytes("p2", 2)
	done := 0
	var e1, e2 error
	if verif.Bool("two_readers_one_call") {
		go func() { _, e1 = c.Cat(context.Background(), bytes.NewReader(p1), bytes.NewReader(p2)); done += 2 }()
	} else {
		go func() { _, e1 = c.One(context.Background(), bytes.NewReader(p1)); done++ }()
		go func() { _, e2 = c.Other(context.Background(), bytes.NewReader(p2)); done++ }()
	}
	verif.Quiesce()
	verif.Assert(done == 2 && e1 == nil && e2 == nil, "calls-return")
	verif.Assert(string(h.gotA) == string(p1), "first-reader-own-bytes")
	verif.Assert(string(h.gotB) == string(p2), "second-reader-own-bytes")
	verif.Reach("same-client-done")
}
