// Package c09: server replies conform to JSON-RPC 2.0 for every request body.
package c09

import (
	"bytes"
	"context"
	"encoding/json"
	"errors"

	jsonrpc "github.com/filecoin-project/go-jsonrpc"

	"gjvharness/verif"
)

type H struct{ ran int }

func (h *H) Val(a int) int { h.ran++; return a + 1 }
func (h *H) Err(a int) error {
	h.ran++
	if a < 0 {
		return errors.New("negative")
	}
	return nil
}
func (h *H) Both(a int) (int, error) {
	h.ran++
	if a < 0 {
		return 5, errors.New("negative")
	}
	return a, nil
}
func (h *H) None(a int) { h.ran++ }

// Ping takes no parameters: any non-empty params list is a wrong-arity request.
func (h *H) Ping() { h.ran++ }

type elemSpec struct {
	idKind    int // 0 absent 1 null 2 string 3 number 4 bool 5 array 6 object
	idStr     string
	idNum     int64
	method    int // 0 Val 1 Err 2 Both 3 None 4 alias->Val 5 unknown 6 Ping (no parameters)
	params    int // 0 [x] 1 absent 2 null 3 [] 4 [x,y] 5 ["s"] 6 {} 7 [x] with x fractional
	x         int64
	idBearing bool // valid string/number id
	idInvalid bool
}

var methodNames = []string{"H.Val", "H.Err", "H.Both", "H.None", "Al", "H.Nope", "H.Ping"}

// grammar sizes: 2 = full, 1 = compact, 0 = tiny (for long batches)
func pick(name string, full, compact, tiny []int, gr int) int {
	set := full
	if gr == 1 {
		set = compact
	} else if gr == 0 {
		set = tiny
	}
	return set[verif.Choice(name, len(set))]
}

func mkElem(tag string, gr int) (map[string]interface{}, *elemSpec) {
	e := &elemSpec{}
	m := map[string]interface{}{"jsonrpc": "2.0"}
	// the server does not validate the version member of a request; its replies say "2.0" regardless
	switch pick(tag+"version", []int{0, 1, 2}, []int{0}, []int{0}, gr) {
	case 1:
		delete(m, "jsonrpc")
	case 2:
		m["jsonrpc"] = "1.0"
	}
	e.idKind = pick(tag+"idkind", []int{0, 1, 2, 3, 4, 5, 6}, []int{0, 1, 2, 3, 4, 5, 6}, []int{0, 2, 3, 4}, gr)
	switch e.idKind {
	case 1:
		m["id"] = nil
	case 2:
		e.idStr = verif.String(tag+"ids", 2)
		m["id"] = e.idStr
		e.idBearing = true
	case 3:
		e.idNum = verif.Int(tag + "idn")
		verif.Assume(e.idNum >= -(1<<53) && e.idNum <= 1<<53)
		m["id"] = e.idNum
		e.idBearing = true
	case 4:
		m["id"] = true
		e.idInvalid = true
	case 5:
		m["id"] = []interface{}{1}
		e.idInvalid = true
	case 6:
		m["id"] = map[string]interface{}{"a": 1}
		e.idInvalid = true
	}
	e.method = pick(tag+"method", []int{0, 1, 2, 3, 4, 5, 6}, []int{0, 2, 4, 5, 6}, []int{0, 5}, gr)
	m["method"] = methodNames[e.method]
	e.params = pick(tag+"params", []int{0, 1, 2, 3, 4, 5, 6, 7}, []int{0, 1, 3, 4, 5}, []int{0, 3}, gr)
	e.x = verif.Int(tag + "x")
	switch e.params {
	case 0:
		m["params"] = []interface{}{e.x}
	case 2:
		m["params"] = nil
	case 3:
		m["params"] = []interface{}{}
	case 4:
		m["params"] = []interface{}{e.x, 2}
	case 5:
		m["params"] = []interface{}{"s"}
	case 6:
		m["params"] = map[string]interface{}{"a": e.x}
	case 7:
		m["params"] = []interface{}{1.5}
	}
	return m, e
}

type errObj struct {
	Code    *int    `json:"code"`
	Message *string `json:"message"`
}

// checkReply checks one response object against the element that caused it.
func checkReply(raw json.RawMessage, e *elemSpec, tag string) {
	var keys map[string]json.RawMessage
	verif.Assert(json.Unmarshal(raw, &keys) == nil, tag+"reply-is-object")
	var ver string
	json.Unmarshal(keys["jsonrpc"], &ver)
	verif.Assert(ver == "2.0", tag+"jsonrpc-2.0")
	idRaw, hasID := keys["id"]
	verif.Assert(hasID, tag+"id-present")
	var id interface{}
	json.Unmarshal(idRaw, &id)
	switch {
	case e == nil || e.idInvalid:
		verif.Assert(id == nil, tag+"id-null-when-undetermined")
	case e.idKind == 2:
		s, ok := id.(string)
		verif.Assert(ok && s == e.idStr, tag+"id-echo-string")
	case e.idKind == 3:
		f, ok := id.(float64)
		verif.Assert(ok && f == float64(e.idNum), tag+"id-echo-number")
	}
	_, hasRes := keys["result"]
	errRaw, hasErr := keys["error"]
	verif.Assert(hasRes != hasErr, tag+"result-xor-error")
	var eo errObj
	if hasErr {
		verif.Assert(json.Unmarshal(errRaw, &eo) == nil && eo.Code != nil && eo.Message != nil, tag+"error-object-shape")
	}
	if e == nil || eo.Code == nil && hasErr {
		return
	}
	// mandated codes
	arityOK := e.arityOK()
	switch {
	case e.idInvalid:
		verif.Assert(hasErr, tag+"invalid-id-error")
	case e.method == 5:
		verif.Assert(hasErr && *eo.Code == -32601, tag+"unknown-method-32601")
	case e.params == 6:
		verif.Assert(hasErr, tag+"object-params-error")
	case !arityOK:
		verif.Assert(hasErr && *eo.Code == -32602, tag+"wrong-arity-32602")
	case e.method != 6 && (e.params == 5 || e.params == 7):
		verif.Assert(hasErr, tag+"type-mismatch-error")
	default:
		// the handler ran: Err/Both fail for negative x
		fails := (e.method == 1 || e.method == 2) && e.x < 0
		verif.Assert(hasErr == fails, tag+"handler-outcome")
		if !hasErr && (e.method == 0 || e.method == 4) {
			var r int64
			json.Unmarshal(keys["result"], &r)
			verif.Assert(r == e.x+1, tag+"result-value")
		}
	}
}

// arityOK: the params list has as many elements as the method has parameters
// (absent, null and [] all mean "no arguments").
func (e *elemSpec) arityOK() bool {
	if e.method == 6 {
		return e.params == 1 || e.params == 2 || e.params == 3
	}
	return e.params == 0 || e.params == 5 || e.params == 7
}

func expectRuns(e *elemSpec) int {
	if e.idInvalid || e.method == 5 {
		return 0
	}
	if e.method == 6 {
		if e.arityOK() {
			return 1
		}
		return 0
	}
	if e.params != 0 {
		return 0
	}
	return 1
}

func newServer() (*jsonrpc.RPCServer, *H) {
	h := &H{}
	srv := jsonrpc.NewServer()
	srv.Register("H", h)
	srv.AliasMethod("Al", "H.Val")
	return srv, h
}

// HarnessSingle: one request object, optionally whitespace padded.
func HarnessSingle() {
	srv, h := newServer()
	m, e := mkElem("", 2)
	body, _ := json.Marshal(m)
	if verif.Bool("pad") {
		body = append(append([]byte(" \n"), body...), []byte("\t ")...)
	}
	var out bytes.Buffer
	srv.HandleRequest(context.Background(), bytes.NewReader(body), &out)
	verif.Assert(h.ran == expectRuns(e), "handler-runs")
	if !e.idBearing && !e.idInvalid {
		// notification: no reply unless it was rejected before being recognised
		if out.Len() > 0 {
			checkReply(json.RawMessage(out.Bytes()), e, "notif-")
			var keys map[string]json.RawMessage
			json.Unmarshal(out.Bytes(), &keys)
			_, hasErr := keys["error"]
			verif.Assert(hasErr, "notification-gets-no-result")
		}
		verif.Reach("single-notification")
		return
	}
	var raw json.RawMessage
	verif.Assert(json.Unmarshal(out.Bytes(), &raw) == nil, "reply-is-one-json-value")
	checkReply(raw, e, "")
	verif.Reach("single-done")
}

// HarnessBatch: arrays of up to B elements.
func HarnessBatch() { batch(1 + verif.Choice("n", verif.Bound("B", 2))) }

// HarnessBatch3: arrays of exactly 3 elements.
func HarnessBatch3() { batch(3) }

func batch(n int) {
	srv, h := newServer()
	var elems []interface{}
	var specs []*elemSpec
	for i := 0; i < n; i++ {
		m, e := mkElem(string(rune('a'+i))+"_", verif.Bound("grammar", 1))
		elems = append(elems, m)
		specs = append(specs, e)
	}
	body, _ := json.Marshal(elems)
	var out bytes.Buffer
	srv.HandleRequest(context.Background(), bytes.NewReader(body), &out)

	want := 0
	runs := 0
	var bearing []*elemSpec
	hasInvalid, hasNotif, notifErr := false, false, false
	for _, e := range specs {
		if e.idBearing || e.idInvalid {
			want++
			bearing = append(bearing, e)
		} else {
			hasNotif = true
			if expectRuns(e) == 0 {
				notifErr = true
			}
		}
		if e.idInvalid {
			hasInvalid = true
		}
		runs += expectRuns(e)
	}
	// structural facts of this body, for the violation class
	if hasInvalid {
		verif.Class("batch-has-invalid-id")
	}
	if hasNotif {
		verif.Class("batch-has-notification")
	}
	if notifErr {
		verif.Class("notification-with-protocol-error")
	}
	verif.Assert(h.ran == runs, "handler-runs")
	if want == 0 && out.Len() == 0 {
		verif.Reach("batch-all-notifications")
		return
	}
	var arr []json.RawMessage
	verif.Assert(json.Unmarshal(out.Bytes(), &arr) == nil, "batch-reply-is-json-array")
	if want == 0 {
		// replies to notifications may only be protocol errors
		verif.Reach("batch-all-notifications")
		return
	}
	verif.Assert(len(arr) == want, "one-response-per-id-bearing-request")
	for i := 0; i < len(arr) && i < len(bearing); i++ {
		checkReply(arr[i], bearing[i], "batch-")
	}
	verif.Reach("batch-done")
}

// HarnessMalformed: empty, whitespace-only, non-JSON, truncated and empty-batch bodies.
func HarnessMalformed() {
	srv, h := newServer()
	bodies := []string{"", "  \n", "{", "[", "[]", "[ ]", "nonsense", `{"jsonrpc":"2.0","id":1,"method":"H.Val","params":[1]`, `[{"jsonrpc":"2.0","id":1,"method":"H.Val","params":[1]},`, `"str"`, `[1,2]`}
	k := verif.Choice("body", len(bodies))
	var out bytes.Buffer
	srv.HandleRequest(context.Background(), bytes.NewReader([]byte(bodies[k])), &out)
	verif.Assert(h.ran == 0, "malformed-runs-nothing")
	var raw json.RawMessage
	verif.Assert(json.Unmarshal(out.Bytes(), &raw) == nil, "reply-is-one-json-value")
	if k == 10 {
		// elements that are not objects: no code is mandated; must still be well-formed
		verif.Reach("malformed-done")
		return
	}
	var keys map[string]json.RawMessage
	verif.Assert(json.Unmarshal(raw, &keys) == nil, "reply-is-object")
	var eo errObj
	verif.Assert(json.Unmarshal(keys["error"], &eo) == nil && eo.Code != nil, "error-object")
	_, hasRes := keys["result"]
	verif.Assert(!hasRes, "no-result")
	var id interface{} = 1
	json.Unmarshal(keys["id"], &id)
	verif.Assert(id == nil, "id-null")
	if eo.Code != nil {
		switch k {
		case 0, 1, 4, 5:
			verif.Assert(*eo.Code == -32600, "empty-request-32600")
		case 9:
			// a JSON string is valid JSON but not a request object
		default:
			verif.Assert(*eo.Code == -32700, "malformed-json-32700")
		}
	}
	verif.Reach("malformed-done")
}

// HarnessWSFrames: over WebSocket every request frame bearing a valid id gets
// exactly one response frame (conforming to the same rules), and a notification
// gets none, whatever its method / params shape.
func HarnessWSFrames() {
	srv, h := newServer()
	pc := verif.DialRaw(srv, nil)
	m, e := mkElem("", verif.Bound("grammar", 2))
	verif.Assume(e.idKind != 3 || e.idNum != 424242)
	body, _ := json.Marshal(m)
	pc.Send(body)
	verif.Quiesce() // whatever the element causes has been written by now (calls are served concurrently)
	// a probe with a known id delimits what belongs to the element
	pc.Send([]byte(`{"jsonrpc":"2.0","id":424242,"method":"H.Val","params":[1]}`))
	var frames []json.RawMessage
	for i := 0; i < 3; i++ {
		b, ok := pc.Recv()
		verif.Assert(ok, "connection-stays-up")
		if !ok {
			return
		}
		var probe struct {
			ID interface{} `json:"id"`
		}
		json.Unmarshal(b, &probe)
		if f, isNum := probe.ID.(float64); isNum && f == 424242 {
			break
		}
		frames = append(frames, json.RawMessage(b))
	}
	verif.Assert(h.ran == expectRuns(e)+1, "handler-runs")
	switch {
	case e.idBearing:
		verif.Assert(len(frames) == 1, "exactly-one-response-frame-per-id-bearing-request")
		if len(frames) == 1 {
			checkReply(frames[0], e, "ws-")
		}
	default:
		// notifications and frames whose id is not a valid id are never answered over WebSocket
		verif.Assert(len(frames) == 0, "no-response-frame-for-notification")
	}
	pc.CloseGraceful()
	verif.Quiesce()
	verif.Reach("ws-frames-done")
}
