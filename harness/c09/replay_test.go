package c09

import (
	"testing"

	"gjvharness/verif"
)

func TestReplay(t *testing.T) {
	verif.ReplayMain(map[string]func(){
		"HarnessBatch":     HarnessBatch,
		"HarnessBatch3":    HarnessBatch3,
		"HarnessMalformed": HarnessMalformed,
		"HarnessSingle":    HarnessSingle,
		"HarnessWSFrames":  HarnessWSFrames,
	})
}
